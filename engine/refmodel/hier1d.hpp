// Coordinate-based 1-D hierarchy model for the local families, written from the documented geometry of the rules
// (dyadic nodes, children are the two mid-points of the node's cell, clipped to [-1,1]) - not from the library's
// point-index arithmetic. Covers localp, semi-localp, localp0, localpb (order != 0) and wavelets of order 1 and 3.
// Order 0 (piece-wise constant, triadic with step-parents) is not modelled here: callers fall back to the library's
// RuleLocal index functions for it (stated weakness in DESIGN.md).
#pragma once
#include <cmath>
#include <vector>
#include <algorithm>

namespace vf { namespace h1d {

enum Kind { LOCALP, SEMILOCALP, LOCALP0, LOCALPB, WAVE1, WAVE3 };

// x = k / 2^m with k odd (m >= 0); returns m, or -1 for x == 0, or -2 if x is not a dyadic rational with m <= 30
inline int dyadic_m(double x) {
    if (x == 0.0) return -1;
    double y = std::fabs(x);
    for (int m = 0; m <= 30; m++) { double s = std::ldexp(y, m); if (s == std::floor(s)) return (std::fmod(s, 2.0) == 1.0) ? m : -2; }
    return -2;
}
inline bool is_node(Kind k, double x) {
    if (std::fabs(x) > 1.0) return false;
    int m = dyadic_m(x); if (m == -2) return false;
    if (k == LOCALP0 && m == 0) return false;   // +-1 are not nodes of the zero-boundary rule
    return true;
}
inline int level(Kind k, double x) {
    int m = dyadic_m(x);
    switch (k) {
    case LOCALP: case SEMILOCALP: return m == -1 ? 0 : m + 1;                 // 0 -> 0, +-1 -> 1, k/2^m -> m+1
    case LOCALP0: return m == -1 ? 0 : m;                                      // 0 -> 0, k/2^m -> m
    case LOCALPB: return m == 0 ? 0 : (m == -1 ? 1 : m + 1);                   // +-1 -> 0, 0 -> 1, k/2^m -> m+1
    case WAVE1: return (m <= 0) ? 0 : m;                                       // 0,+-1 -> 0, k/2^m -> m
    case WAVE3: return (m <= 1) ? 0 : m - 1;                                   // 0,+-1,+-1/2 -> 0, k/2^m -> m-1
    }
    return 0;
}
// half of the spacing of the node's own level
inline double delta(Kind k, double x) {
    int m = dyadic_m(x);
    if (m >= 1) return std::ldexp(1.0, -(m + 1));
    switch (k) {
    case LOCALP: case SEMILOCALP: return m == -1 ? 1.0 : 0.5;
    case LOCALP0: return 0.5;
    case LOCALPB: return m == 0 ? 1.0 : 0.5;
    case WAVE1: return 0.5;
    case WAVE3: return 0.25;
    }
    return 0.5;
}
inline std::vector<double> children(Kind k, double x) {
    std::vector<double> c; double d = delta(k, x);
    if (x - d >= -1.0 && is_node(k, x - d)) c.push_back(x - d);
    if (x + d <= 1.0 && is_node(k, x + d)) c.push_back(x + d);
    return c;
}
// all parents (including the second parent of semi-localp +-1/2 and of localpb 0; wavelet level-1 nodes descend from every level-0 node
// only through the children relation used here)
inline std::vector<double> parents(Kind k, double x) {
    std::vector<double> p; int m = dyadic_m(x);
    double step = (m == -1) ? 1.0 : std::ldexp(1.0, -m);
    for (double y : {x - step, x + step}) {
        if (std::fabs(y) > 1.0 || !is_node(k, y)) continue;
        auto c = children(k, y); if (std::find(c.begin(), c.end(), x) != c.end()) p.push_back(y);
    }
    if (k == SEMILOCALP && std::fabs(x) == 0.5) { p.clear(); p.push_back(-1.0); p.push_back(1.0); }   // quadratic level-1 functions are global: both are parents
    return p;
}
// all nodes of level <= L, sorted
inline std::vector<double> nodes_upto(Kind k, int L) {
    std::vector<double> v;
    for (int m = -1; m <= L + 2; m++) {
        if (m == -1) { if (level(k, 0.0) <= L) v.push_back(0.0); continue; }
        long den = 1L << m;
        for (long a = -den; a <= den; a++) { if ((a % 2 == 0) && !(m == 0)) continue; if (m == 0 && a == 0) continue; double x = (double)a / (double)den; if (is_node(k, x) && dyadic_m(x) == m && level(k, x) <= L) v.push_back(x); }
    }
    std::sort(v.begin(), v.end()); return v;
}

}} // namespace
