// Reference implementation of the documented domain transforms (used as the independent side of C05 / C10).
// Written from the documentation only:
//   * TasmanianSparseGrid::setDomainTransform / tsgEnumerates.hpp (TypeOneDRule, "Domain Transformation" and the weight
//     function listed with every Gauss rule): canonical [-1,1] -> [a,b]; Fourier canonical [0,1] -> [a,b]; Gauss-Laguerre
//     [0,inf) -> [a,inf) with weight (x-a)^alpha exp(-b(x-a)); Gauss-Hermite weight |x-a|^alpha exp(-b(x-a)^2);
//     Chebyshev-1/2, Gegenbauer, Jacobi weights (b-x)^alpha (x-a)^beta.
//   * TasmanianSparseGrid::setConformalTransformASIN: truncated Maclaurin series of arcsin, "truncation" = index of the last
//     kept term, normalised so that the end points of [-1,1] are fixed (Jantsch, Webster: Sparse Grid Quadrature Rules Based on
//     Conformal Mappings).
// The quadrature factor is the substitution rule applied to the documented weight function, e.g. for Jacobi
//   int_a^b f(x)(b-x)^al (x-a)^be dx,  x = ((b-a)t + (b+a))/2  =>  ((b-a)/2)^(al+be+1) int_-1^1 f(x(t)) (1-t)^al (1+t)^be dt.
// Everything is computed in long double.
#pragma once
#include "grid.hpp"

namespace vf { namespace maps {

enum Dom { D11 = 0, DFOURIER = 1, DLAGUERRE = 2, DHERMITE = 3 };
inline Dom dom_of(const GridSpec &sp) {
    if (sp.family == F_FOURIER) return DFOURIER;
    if (sp.family == F_GLOBAL && !sp.custom && rule_laguerre(sp.rule)) return DLAGUERRE;
    if (sp.family == F_GLOBAL && !sp.custom && rule_hermite(sp.rule)) return DHERMITE;
    return D11;
}
inline const char *dom_name(Dom d) { static const char *n[] = {"[-1,1]", "fourier[0,1]", "laguerre[0,inf)", "hermite(-inf,inf)"}; return n[d]; }

// canonical t -> transformed x
inline long double fwd(Dom d, long double a, long double b, long double t) {
    switch (d) {
    case DFOURIER: return (b - a) * t + a;
    case DLAGUERRE: return t / b + a;
    case DHERMITE: return t / sqrtl(b) + a;
    default: return ((b - a) * t + (b + a)) / 2.0L;
    }
}
// transformed x -> canonical t
inline long double inv(Dom d, long double a, long double b, long double x) {
    switch (d) {
    case DFOURIER: return (x - a) / (b - a);
    case DLAGUERRE: return (x - a) * b;
    case DHERMITE: return (x - a) * sqrtl(b);
    default: return (2.0L * x - (b + a)) / (b - a);
    }
}
// dx/dt (constant: all maps are affine)
inline long double dxdt(Dom d, long double a, long double b) {
    switch (d) {
    case DFOURIER: return b - a;
    case DLAGUERRE: return 1.0L / b;
    case DHERMITE: return 1.0L / sqrtl(b);
    default: return (b - a) / 2.0L;
    }
}
// exponents of the Jacobi-type weight (1-t)^al (1+t)^be of a rule on [-1,1]; (0,0) for the unweighted rules
inline void jacobi_exponents(const GridSpec &sp, long double &al, long double &be) {
    al = 0; be = 0;
    if (sp.family != F_GLOBAL || sp.custom) return;
    switch (sp.rule) {
    case rule_gausschebyshev1: case rule_gausschebyshev1odd: al = be = -0.5L; break;
    case rule_gausschebyshev2: case rule_gausschebyshev2odd: al = be = 0.5L; break;
    case rule_gaussgegenbauer: case rule_gaussgegenbauerodd: al = be = (long double)sp.alpha; break;
    case rule_gaussjacobi: case rule_gaussjacobiodd: al = (long double)sp.alpha; be = (long double)sp.beta; break;
    default: break;
    }
}
inline bool weighted_rule(const GridSpec &sp) { long double al, be; jacobi_exponents(sp, al, be); return al != 0 || be != 0 || dom_of(sp) == DLAGUERRE || dom_of(sp) == DHERMITE; }
// factor of the quadrature weights / basis integrals of one direction
inline long double quad_factor(const GridSpec &sp, long double a, long double b) {
    switch (dom_of(sp)) {
    case DFOURIER: return b - a;
    case DLAGUERRE: return powl(b, -(1.0L + (long double)sp.alpha));
    case DHERMITE: return powl(b, -(1.0L + (long double)sp.alpha) / 2.0L);
    default: { long double al, be; jacobi_exponents(sp, al, be); return powl((b - a) / 2.0L, al + be + 1.0L); }
    }
}

// ---- truncated arcsin series:  asin(t) = sum_k A_k t^(2k+1)/(2k+1),  A_0 = 1, A_k = A_(k-1) (2k-1)/(2k)
//      g_M(t) = sum_{k<=M} A_k t^(2k+1)/(2k+1) / sum_{k<=M} A_k/(2k+1)      (g(+-1) = +-1, g odd, g' > 0)
struct Asin {
    int M; long double norm; std::vector<long double> A;
    explicit Asin(int trunc) : M(trunc), norm(0), A((size_t)trunc + 1) {
        A[0] = 1.0L; for (int k = 1; k <= M; k++) A[(size_t)k] = A[(size_t)k - 1] * (long double)(2 * k - 1) / (long double)(2 * k);
        for (int k = 0; k <= M; k++) norm += A[(size_t)k] / (long double)(2 * k + 1);
    }
    long double g(long double t) const { long double t2 = t * t, s = 0; for (int k = M; k >= 0; k--) s = s * t2 + A[(size_t)k] / (long double)(2 * k + 1); return s * t / norm; }
    long double dg(long double t) const { long double t2 = t * t, s = 0; for (int k = M; k >= 0; k--) s = s * t2 + A[(size_t)k]; return s / norm; }
    // inverse on [-1,1] by bisection (g is increasing)
    long double ginv(long double x) const {
        if (x >= 1.0L) return 1.0L; if (x <= -1.0L) return -1.0L;
        long double lo = -1.0L, hi = 1.0L;
        for (int it = 0; it < 80; it++) { long double mid = 0.5L * (lo + hi); if (g(mid) < x) lo = mid; else hi = mid; }
        return 0.5L * (lo + hi);
    }
};

}

// tolerance compare that also books the error/tolerance ratio of the oracle into decade buckets (evidence for the calibration of tau)
inline void close_booked(Ctx &ctx, const char *oracle, double a, double b, double scale, double tau, const std::function<std::string()> &where) {
    double before = ctx.max_ratio; ctx.max_ratio = 0;
    try { ctx.close(oracle, a, b, scale, tau, where); } catch (...) { ctx.max_ratio = std::max(before, ctx.max_ratio); throw; }
    double r = ctx.max_ratio; ctx.max_ratio = std::max(before, r);
    if (r >= 1e-3) ctx.count(std::string("ratio>=") + (r >= 1e-1 ? "1e-1" : r >= 1e-2 ? "1e-2" : "1e-3") + ":" + oracle);
}

} // namespace
