// C16 helpers: matrix files in both documented formats (written and parsed by harness code that shares nothing with the
// library: Doxygen/InterfaceCLI.md "Matrix File Format"), comparison of matrices, and the process runner for the tasgrid binary.
#pragma once
#include "observe.hpp"
#include <spawn.h>
#include <sys/wait.h>
#include <sys/stat.h>
#include <unistd.h>
#include <fcntl.h>
#include <time.h>
#include <signal.h>
extern char **environ;

namespace vf {

struct Mat { int rows = 0, cols = 0; std::vector<double> v; Mat() {} Mat(int r, int c, std::vector<double> d) : rows(r), cols(c), v(std::move(d)) {} };
struct Sparse { int rows = 0, cols = 0; std::vector<int> pntr, indx; std::vector<double> vals; };

inline std::string slurp(const std::string &path, bool *ok = nullptr) {
    std::string b; FILE *f = fopen(path.c_str(), "rb"); if (ok) *ok = f != nullptr; if (!f) return b;
    char buf[1 << 16]; size_t n; while ((n = fread(buf, 1, sizeof buf, f)) > 0) b.append(buf, n); fclose(f); return b;
}
inline void spit(const std::string &path, const std::string &b) {
    FILE *f = fopen(path.c_str(), "wb"); if (!f) throw std::runtime_error("harness: cannot write " + path);
    if (!b.empty() && fwrite(b.data(), 1, b.size(), f) != b.size()) { fclose(f); throw std::runtime_error("harness: short write " + path); } fclose(f);
}
inline size_t first_diff(const std::string &a, const std::string &b) { size_t p = 0; while (p < a.size() && p < b.size() && a[p] == b[p]) p++; return p; }

// "two integers on the first line indicating the number of rows and columns ... followed by the actual entries of the matrix one row at a time";
// binary: "three characters TSG ... followed by two integers and the double-precision numbers ... left-to-right top-to-bottom"
inline void write_matrix(const std::string &path, const Mat &m, bool binary, int style) {
    std::string b;
    if (binary) {
        b = "TSG"; int rc[2] = {m.rows, m.cols}; b.append((const char *)rc, sizeof rc);
        if (!m.v.empty()) b.append((const char *)m.v.data(), m.v.size() * sizeof(double));
    } else {
        b = std::to_string(m.rows) + " " + std::to_string(m.cols) + "\n"; char t[48];
        for (int i = 0; i < m.rows; i++) { for (int j = 0; j < m.cols; j++) { double x = m.v[(size_t)i * (size_t)m.cols + (size_t)j];
                snprintf(t, sizeof t, style == 1 ? "%.17e" : (style == 2 ? "%25.17e" : "%.17g"), x); if (j) b += ' '; b += t; } b += '\n'; }
    }
    spit(path, b);
}
inline std::string mat_text(const Mat &m) {
    std::string t = std::to_string(m.rows) + "x" + std::to_string(m.cols) + ":";
    size_t n = std::min<size_t>(m.v.size(), 24); for (size_t i = 0; i < n; i++) { t += ' '; t += decd(m.v[i]); }
    if (m.v.size() > n) { std::string all; all.assign((const char *)m.v.data(), m.v.size() * sizeof(double)); char b[32]; snprintf(b, sizeof b, " ... #%016llx", (unsigned long long)fnv1a(all)); t += b; }
    return t;
}

struct TokenReader {   // whitespace separated tokens of an ascii file
    const std::string &b; size_t p = 0; const std::string &what;
    TokenReader(const std::string &bytes, const std::string &w) : b(bytes), what(w) {}
    bool next(std::string &tok) { while (p < b.size() && isspace((unsigned char)b[p])) p++; if (p >= b.size()) return false; size_t q = p; while (q < b.size() && !isspace((unsigned char)b[q])) q++; tok = b.substr(p, q - p); p = q; return true; }
    long integer(const char *role) { std::string t; if (!next(t)) throw Violation("C16.output-format", what + ": output ends before the " + role); char *e = nullptr; long v = strtol(t.c_str(), &e, 10);
        if (!e || *e) throw Violation("C16.output-format", what + ": expected an integer for the " + role + ", found '" + t + "'"); return v; }
    double real(const char *role) { std::string t; if (!next(t)) throw Violation("C16.output-format", what + ": output ends before all " + role + " were read"); char *e = nullptr; double v = strtod(t.c_str(), &e);
        if (!e || *e) throw Violation("C16.output-format", what + ": expected a number among the " + role + ", found '" + t + "'"); return v; }
    void end() { std::string t; if (next(t)) throw Violation("C16.output-format", what + ": unexpected trailing data '" + t.substr(0, 40) + "'"); }
};
struct ByteReader {
    const std::string &b; size_t p = 0; const std::string &what;
    ByteReader(const std::string &bytes, const std::string &w) : b(bytes), what(w) {}
    void need(size_t n, const char *role) { if (b.size() - p < n) throw Violation("C16.output-format", what + ": binary output too short for the " + role + " (" + std::to_string(b.size()) + " bytes)"); }
    void magic() { need(3, "TSG header"); if (b.compare(0, 3, "TSG") != 0) throw Violation("C16.output-format", what + ": binary output does not start with TSG"); p = 3; }
    int integer(const char *role) { need(sizeof(int), role); int v; memcpy(&v, b.data() + p, sizeof v); p += sizeof v; return v; }
    void ints(std::vector<int> &v, size_t n, const char *role) { need(n * sizeof(int), role); v.resize(n); if (n) memcpy(v.data(), b.data() + p, n * sizeof(int)); p += n * sizeof(int); }
    void reals(std::vector<double> &v, size_t n, const char *role) { need(n * sizeof(double), role); v.resize(n); if (n) memcpy(v.data(), b.data() + p, n * sizeof(double)); p += n * sizeof(double); }
    void end() { if (p != b.size()) throw Violation("C16.output-format", what + ": " + std::to_string(b.size() - p) + " unexpected trailing bytes in the binary output"); }
};
inline void check_dims(long r, long c, const std::string &what) { if (r < 0 || c < 0 || r > 10000000 || c > 10000000 || r * c > 50000000) throw Violation("C16.output-format", what + ": implausible matrix size " + std::to_string(r) + " x " + std::to_string(c)); }

inline Mat parse_matrix(const std::string &bytes, bool binary, const std::string &what) {
    Mat m;
    if (binary) { ByteReader r(bytes, what); r.magic(); m.rows = r.integer("number of rows"); m.cols = r.integer("number of columns"); check_dims(m.rows, m.cols, what); r.reals(m.v, (size_t)m.rows * (size_t)m.cols, "matrix entries"); r.end(); }
    else { TokenReader r(bytes, what); long a = r.integer("number of rows"), b = r.integer("number of columns"); check_dims(a, b, what); m.rows = (int)a; m.cols = (int)b; m.v.resize((size_t)a * (size_t)b); for (auto &x : m.v) x = r.real("matrix entries"); r.end(); }
    return m;
}
// sparse output of -evalhierarchys: rows, cols, nnz; row offsets (rows+1); column indexes (nnz); values (nnz)
inline Sparse parse_sparse(const std::string &bytes, bool binary, const std::string &what) {
    Sparse m; long nnz;
    if (binary) { ByteReader r(bytes, what); r.magic(); m.rows = r.integer("number of rows"); m.cols = r.integer("number of columns"); nnz = r.integer("number of non-zeros"); check_dims(m.rows, m.cols, what);
        if (nnz < 0 || nnz > 50000000) throw Violation("C16.output-format", what + ": implausible number of non-zeros"); r.ints(m.pntr, (size_t)m.rows + 1, "row offsets"); r.ints(m.indx, (size_t)nnz, "column indexes"); r.reals(m.vals, (size_t)nnz, "values"); r.end(); }
    else { TokenReader r(bytes, what); long a = r.integer("number of rows"), b = r.integer("number of columns"); nnz = r.integer("number of non-zeros"); check_dims(a, b, what);
        if (nnz < 0 || nnz > 50000000) throw Violation("C16.output-format", what + ": implausible number of non-zeros"); m.rows = (int)a; m.cols = (int)b;
        m.pntr.resize((size_t)a + 1); for (auto &x : m.pntr) x = (int)r.integer("row offsets"); m.indx.resize((size_t)nnz); for (auto &x : m.indx) x = (int)r.integer("column indexes"); m.vals.resize((size_t)nnz); for (auto &x : m.vals) x = r.real("values"); r.end(); }
    return m;
}

// 1e-13 relative, entry by entry (the tool runs the same code on the same data: a non-zero ratio already deserves a look)
inline void compare_values(Ctx &ctx, const std::vector<double> &got, const std::vector<double> &exp, int cols, const std::string &what) {
    for (size_t i = 0; i < exp.size(); i++) {
        double a = got[i], b = exp[i]; if (std::memcmp(&a, &b, sizeof a) == 0) continue; if (std::isnan(a) && std::isnan(b)) continue;
        ctx.close("C16.output-values", a, b, std::max(std::fabs(a), std::fabs(b)), 1e-13, [&]() { return what + " entry (" + std::to_string(cols ? i / (size_t)cols : 0) + "," + std::to_string(cols ? i % (size_t)cols : i) + ")"; });
    }
}
inline void compare_mat(Ctx &ctx, const Mat &got, const Mat &exp, const std::string &what, bool vector = false) {
    ctx.count("matrix-compared");
    bool shape = got.rows == exp.rows && got.cols == exp.cols;
    if (vector) shape = (got.rows == 1 || got.cols == 1) && (size_t)got.rows * (size_t)got.cols == exp.v.size();   // a vector may be written as a row or as a column
    VF_REQUIRE("C16.output-shape", shape, what << ": the tool wrote a " << got.rows << " x " << got.cols << " matrix, the API sequence gives " << exp.rows << " x " << exp.cols);
    compare_values(ctx, got.v, exp.v, exp.cols, what);
}
inline void compare_sparse(Ctx &ctx, const Sparse &got, const Sparse &exp, const std::string &what) {
    ctx.count("sparse-compared");
    VF_REQUIRE("C16.output-shape", got.rows == exp.rows && got.cols == exp.cols && got.vals.size() == exp.vals.size(), what << ": the tool wrote a sparse " << got.rows << " x " << got.cols << " matrix with " << got.vals.size() << " non-zeros, the API gives " << exp.rows << " x " << exp.cols << " with " << exp.vals.size());
    VF_REQUIRE("C16.output-values", got.pntr == exp.pntr, what << ": row offsets of the sparse matrix differ");
    VF_REQUIRE("C16.output-values", got.indx == exp.indx, what << ": column indexes of the sparse matrix differ");
    compare_values(ctx, got.vals, exp.vals, 0, what + " sparse value");
}

// ---------------------------------------------------------------------------------------------
enum RunKind { RK_OK, RK_REJECT, RK_ABORT, RK_CRASH, RK_TIMEOUT };
struct Run { RunKind kind = RK_OK; int code = 0; std::string status, out, err; };

inline Run run_tool(const std::vector<std::string> &argv, const std::string &dir) {
    Run r; std::string so = dir + "/c16_stdout.txt", se = dir + "/c16_stderr.txt";
    std::vector<char *> av; for (auto &a : argv) av.push_back(const_cast<char *>(a.c_str())); av.push_back(nullptr);
    posix_spawn_file_actions_t fa; posix_spawn_file_actions_init(&fa);
    posix_spawn_file_actions_addopen(&fa, 0, "/dev/null", O_RDONLY, 0);
    posix_spawn_file_actions_addopen(&fa, 1, so.c_str(), O_WRONLY | O_CREAT | O_TRUNC, 0644);
    posix_spawn_file_actions_addopen(&fa, 2, se.c_str(), O_WRONLY | O_CREAT | O_TRUNC, 0644);
    pid_t pid = 0; int rc = posix_spawn(&pid, argv[0].c_str(), &fa, nullptr, av.data(), environ);
    posix_spawn_file_actions_destroy(&fa);
    if (rc != 0) throw std::runtime_error("harness: cannot start " + argv[0] + ": " + strerror(rc));
    int st = 0; struct timespec t0; clock_gettime(CLOCK_MONOTONIC, &t0); long spins = 0;
    for (;;) {
        pid_t w = waitpid(pid, &st, WNOHANG);
        if (w == pid) break;
        if (w < 0 && errno != EINTR) throw std::runtime_error("harness: waitpid failed");
        struct timespec d = {0, spins < 40 ? 250000L : 2000000L}; nanosleep(&d, nullptr); spins++;
        if ((spins & 63) == 0) { struct timespec t1; clock_gettime(CLOCK_MONOTONIC, &t1);
            if (t1.tv_sec - t0.tv_sec >= 8) { kill(pid, SIGKILL); waitpid(pid, &st, 0); r.kind = RK_TIMEOUT; r.status = "timeout"; return r; } }
    }
    r.out = slurp(so); r.err = slurp(se);
    bool san = r.err.find("Sanitizer") != std::string::npos || r.err.find("runtime error:") != std::string::npos;
    if (WIFEXITED(st)) {
        r.code = WEXITSTATUS(st); r.status = "exit status " + std::to_string(r.code);
        if (san || (r.code != 0 && r.code != 1)) r.kind = RK_CRASH; else r.kind = r.code == 0 ? RK_OK : RK_REJECT;
    } else if (WIFSIGNALED(st)) {
        r.code = 128 + WTERMSIG(st); r.status = std::string("killed by signal ") + std::to_string(WTERMSIG(st));
        // an uncaught library exception ends in std::terminate -> SIGABRT: a (crude) rejection, reported separately from memory errors
        if (WTERMSIG(st) == SIGABRT && !san && r.err.find("terminate called") != std::string::npos) r.kind = RK_ABORT; else r.kind = RK_CRASH;
    } else { r.kind = RK_CRASH; r.status = "unknown wait status"; }
    return r;
}

} // namespace vf
