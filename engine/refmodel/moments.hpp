// Shared reference mathematics of C02 / C03, written from the documentation (tsgEnumerates.hpp: weight function of every rule;
// TasmanianSparseGrid.hpp: setDomainTransform; tsgExoticQuadrature.hpp: exotic weights), never from library code:
//   * exact moments of x^k on the (transformed) domain in long double (Jacobi three-term recurrence of DESIGN 2.5, Gamma functions for
//     Laguerre / Hermite, closed form for the unit weight, own Gauss-Legendre reference for the exotic weights);
//   * the vanishing-polynomial variant for clenshaw-curtis-zero (DESIGN 2.9);
//   * the declared space as a set of multi-indices (maximal elements, membership);
//   * grid maker that also knows the exotic custom tables (grid.hpp only knows the in-memory Gauss-Legendre table).
#pragma once
#include "grid.hpp"
#include "history.hpp"
#include "tsgExoticQuadrature.hpp"

namespace vf { namespace c0203 {

using LD = long double;
static const LD PI_L = 3.141592653589793238462643383279502884L;

// ---------------------------------------------------------------------------------------------
// 1-D weight function of a grid specification (canonical variable t, see DESIGN Appendix A)
enum WKind { W_UNIT = 0, W_JACOBI, W_LAGUERRE, W_HERMITE, W_FOURIER, W_EXOTIC };
struct Weight1D { WKind kind = W_UNIT; LD al = 0, be = 0; int exotic = -1; };

inline Weight1D weight_for(const GridSpec &sp, int exotic) {
    Weight1D w;
    if (sp.family == F_FOURIER) { w.kind = W_FOURIER; return w; }
    if (sp.family != F_GLOBAL) return w;
    if (sp.custom) { if (exotic >= 0) { w.kind = W_EXOTIC; w.exotic = exotic; } return w; }
    switch (sp.rule) {
    case rule_gausschebyshev1: case rule_gausschebyshev1odd: w.kind = W_JACOBI; w.al = w.be = -0.5L; break;      // 1 / sqrt((b-x)(x-a))
    case rule_gausschebyshev2: case rule_gausschebyshev2odd: w.kind = W_JACOBI; w.al = w.be = 0.5L; break;       // sqrt((b-x)(x-a))
    case rule_gaussgegenbauer: case rule_gaussgegenbauerodd: w.kind = W_JACOBI; w.al = w.be = (LD)sp.alpha; break;   // (b-x)^alpha (x-a)^alpha
    case rule_gaussjacobi: case rule_gaussjacobiodd: w.kind = W_JACOBI; w.al = (LD)sp.alpha; w.be = (LD)sp.beta; break;   // (b-x)^alpha (x-a)^beta
    case rule_gausslaguerre: case rule_gausslaguerreodd: w.kind = W_LAGUERRE; w.al = (LD)sp.alpha; break;        // (x-a)^alpha exp(-b (x-a)) on [a, inf)
    case rule_gausshermite: case rule_gausshermiteodd: w.kind = W_HERMITE; w.al = (LD)sp.alpha; break;           // |x-a|^alpha exp(-b (x-a)^2) on R
    default: break;
    }
    return w;
}

// own Gauss-Legendre rule on [-1,1] in long double (Newton iteration on the Legendre recurrence); reference integrals of the exotic weights
inline void gauss_legendre_ld(int n, std::vector<LD> &x, std::vector<LD> &w) {
    x.assign((size_t)n, 0); w.assign((size_t)n, 0);
    for (int i = 0; i < n; i++) {
        LD z = cosl(PI_L * ((LD)i + 0.75L) / ((LD)n + 0.5L)), pp = 1;
        for (int it = 0; it < 100; it++) {
            LD p0 = 1, p1 = z;
            for (int k = 2; k <= n; k++) { LD p2 = ((2 * k - 1) * z * p1 - (k - 1) * p0) / k; p0 = p1; p1 = p2; }
            pp = n * (z * p1 - p0) / (z * z - 1);
            LD dz = p1 / pp; z -= dz;
            if (fabsl(dz) < 1e-19L) break;
        }
        { LD p0 = 1, p1 = z; for (int k = 2; k <= n; k++) { LD p2 = ((2 * k - 1) * z * p1 - (k - 1) * p0) / k; p0 = p1; p1 = p2; } pp = n * (z * p1 - p0) / (z * z - 1); }
        x[(size_t)i] = z; w[(size_t)i] = 2 / ((1 - z * z) * pp * pp);
    }
}

// exotic weights rho(t) on [-1,1] (smooth, two of them change sign), the shift c with rho + c > 0 and the documented symmetry flag
struct ExoticDef { const char *name; double shift; bool symmetric; };
static const ExoticDef EXOTICS[] = {{"exp(t)", 0.0, false}, {"cos(3t)", 1.25, false}, {"t^2-0.3", 0.5, true}, {"sinc(4t)", 0.5, true}};
static const int NUM_EXOTIC = 4;
inline LD exotic_rho(int id, LD t) {
    switch (id) { case 0: return expl(t); case 1: return cosl(3 * t); case 2: return t * t - 0.3L;
    default: { LD u = 4 * t; return fabsl(u) < 1e-6L ? 1 - u * u / 6 : sinl(u) / u; } }
}
static const int EXOTIC_LEVELS = 7;
inline const CustomTabulated &exotic_table(int id) {   // pure function of id: memoised
    static std::map<int, CustomTabulated> cache;
    auto it = cache.find(id);
    if (it == cache.end()) {
        auto rho = [id](double t) -> double { return (double)exotic_rho(id, (LD)t); };
        it = cache.emplace(id, getExoticQuadrature(EXOTIC_LEVELS, EXOTICS[id].shift, rho, 120, EXOTICS[id].name, EXOTICS[id].symmetric)).first;
    }
    return it->second;
}
inline const std::vector<LD> &exotic_moments(int id) {   // int_{-1}^{1} t^k rho(t) dt, k = 0..63, by an 80-point Gauss-Legendre rule of the harness
    static std::map<int, std::vector<LD>> cache;
    auto it = cache.find(id);
    if (it == cache.end()) {
        std::vector<LD> x, w; gauss_legendre_ld(80, x, w);
        std::vector<LD> m(64, 0);
        for (size_t q = 0; q < x.size(); q++) { LD r = exotic_rho(id, x[q]) * w[q], p = 1; for (int k = 0; k < 64; k++) { m[(size_t)k] += r * p; p *= x[q]; } }
        it = cache.emplace(id, std::move(m)).first;
    }
    return it->second;
}

// canonical Jacobi moments I_m = int_{-1}^{1} (1-t)^al (1+t)^be t^m dt, m = 0..M:
// I_0 = 2^(al+be+1) B(al+1, be+1); (al+be+m+2) I_{m+1} = (be-al) I_m + m I_{m-1}
inline std::vector<LD> jacobi_canonical(LD al, LD be, int M) {
    std::vector<LD> I((size_t)M + 2, 0);
    I[0] = powl(2, al + be + 1) * tgammal(al + 1) * tgammal(be + 1) / tgammal(al + be + 2);
    I[1] = (be - al) * I[0] / (al + be + 2);
    for (int m = 1; m < M; m++) I[(size_t)m + 1] = ((be - al) * I[(size_t)m] + m * I[(size_t)m - 1]) / (al + be + m + 2);
    I.resize((size_t)M + 1);
    return I;
}

// mu[k] = int x^k rho(x) dx over the transformed domain, k = 0..M  (Fourier: only the volume, mu[0])
inline std::vector<LD> moments_1d(const Weight1D &wt, bool tr, double a, double b, int M) {
    std::vector<LD> mu((size_t)M + 1, 0);
    auto binom_row = [](int p) { std::vector<LD> c((size_t)p + 1, 1); for (int k = 1; k <= p; k++) c[(size_t)k] = c[(size_t)k - 1] * (LD)(p - k + 1) / (LD)k; return c; };
    switch (wt.kind) {
    case W_UNIT: {
        LD lo = tr ? (LD)a : -1, hi = tr ? (LD)b : 1;
        for (int k = 0; k <= M; k++) mu[(size_t)k] = (powl(hi, k + 1) - powl(lo, k + 1)) / (k + 1);
        break; }
    case W_EXOTIC: {   // documented on [-1,1] only; generated without a transform
        const auto &m = exotic_moments(wt.exotic);
        for (int k = 0; k <= M && k < (int)m.size(); k++) mu[(size_t)k] = m[(size_t)k];
        break; }
    case W_JACOBI: {
        auto I = jacobi_canonical(wt.al, wt.be, M);
        if (!tr) { mu = I; break; }
        LD c = ((LD)a + (LD)b) / 2, h = ((LD)b - (LD)a) / 2, sc = powl(h, wt.al + wt.be + 1);   // x = c + h t
        for (int p = 0; p <= M; p++) { auto C = binom_row(p); LD s = 0; for (int k = 0; k <= p; k++) s += C[(size_t)k] * powl(c, p - k) * powl(h, k) * I[(size_t)k]; mu[(size_t)p] = sc * s; }
        break; }
    case W_LAGUERRE: {   // x = t / b + a, int t^m t^al e^-t dt = Gamma(al + m + 1)
        LD sh = tr ? (LD)a : 0, rate = tr ? (LD)b : 1, sc = powl(rate, -(1 + wt.al));
        for (int p = 0; p <= M; p++) { auto C = binom_row(p); LD s = 0; for (int k = 0; k <= p; k++) s += C[(size_t)k] * powl(sh, p - k) * powl(rate, -(LD)k) * tgammal(wt.al + k + 1); mu[(size_t)p] = sc * s; }
        break; }
    case W_HERMITE: {    // x = t / sqrt(b) + a, int t^m |t|^al e^(-t^2) dt = Gamma((al + m + 1) / 2) for even m, 0 for odd m
        LD sh = tr ? (LD)a : 0, rate = tr ? (LD)b : 1, sc = powl(rate, -(1 + wt.al) / 2);
        for (int p = 0; p <= M; p++) { auto C = binom_row(p); LD s = 0; for (int k = 0; k <= p; k += 2) s += C[(size_t)k] * powl(sh, p - k) * powl(rate, -(LD)k / 2) * tgammal((wt.al + k + 1) / 2); mu[(size_t)p] = sc * s; }
        break; }
    case W_FOURIER: mu[0] = tr ? (LD)b - (LD)a : 1; break;
    }
    return mu;
}

// clenshaw-curtis-zero (DESIGN 2.9): the declared power k >= 2 is tested with the vanishing polynomial (1 - t^2) t^(k-2), t canonical
inline LD cc0_basis(LD t, int k) { return (1 - t * t) * powl(t, k - 2); }
inline std::vector<LD> cc0_moments(bool tr, double a, double b, int M) {   // nu[k] = int_a^b (1-t^2) t^(k-2) dx, k >= 2 (nu[0], nu[1] unused)
    std::vector<LD> nu((size_t)M + 1, 0); LD h = tr ? ((LD)b - (LD)a) / 2 : 1;
    auto J = [](int m) -> LD { return (m % 2) ? 0 : (LD)2 / (LD)(m + 1); };
    for (int k = 2; k <= M; k++) nu[(size_t)k] = h * (J(k - 2) - J(k));
    return nu;
}

// ---------------------------------------------------------------------------------------------
// the declared space: list of multi-indices as returned by getGlobalPolynomialSpace / decoded from the Fourier point indexes
struct Space {
    int d = 0; std::vector<std::vector<int>> idx; std::set<std::vector<int>> have; std::vector<int> maxp;
    void build(const std::vector<int> &flat, int dims) {
        d = dims; size_t n = flat.size() / (size_t)d; idx.clear(); have.clear(); maxp.assign((size_t)d, 0);
        for (size_t i = 0; i < n; i++) { std::vector<int> p(flat.begin() + (long)(i * (size_t)d), flat.begin() + (long)((i + 1) * (size_t)d)); have.insert(p); idx.push_back(std::move(p)); }
        for (auto &p : idx) for (int j = 0; j < d; j++) maxp[(size_t)j] = std::max(maxp[(size_t)j], p[(size_t)j]);
    }
    bool contains(const std::vector<int> &p) const { return have.count(p) > 0; }
    bool maximal(const std::vector<int> &p) const { std::vector<int> q = p; for (int j = 0; j < d; j++) { q[(size_t)j]++; if (have.count(q)) return false; q[(size_t)j]--; } return true; }
    int total(const std::vector<int> &p) const { int t = 0; for (int v : p) t += v; return t; }
};

// ---------------------------------------------------------------------------------------------
// grid maker with exotic tables: same depth-lowering policy as make_grid() of grid.hpp
inline void make_raw2(TasmanianSparseGrid &g, const GridSpec &sp, int exotic, int depth, int outs) {
    if (sp.family == F_GLOBAL && sp.custom && exotic >= 0) g.makeGlobalGrid(sp.dims, outs, depth, sp.type, CustomTabulated(exotic_table(exotic)), sp.aw, sp.limits);
    else make_raw(g, sp, depth, outs);
}
inline void make_grid2(TasmanianSparseGrid &g, GridSpec &sp, int exotic, int cap) {
    int good = -1;
    for (int dep = 0; dep <= sp.depth; dep++) {
        try { TasmanianSparseGrid t; make_raw2(t, sp, exotic, dep, 0); if (t.getNumPoints() > cap) break; good = dep; }
        catch (std::runtime_error &) { break; }   // documented: table too short
    }
    if (good < 0) throw Discard("depth 0 grid exceeds the cap or the table");
    sp.depth = good;
    make_raw2(g, sp, exotic, sp.depth, sp.outs);
    apply_transforms(g, sp);
}

// canonical variable of a transformed coordinate (own inverse of the documented linear maps)
inline LD to_canonical11(LD x, bool tr, double a, double b) { if (!tr) return x; LD c = ((LD)a + (LD)b) / 2, h = ((LD)b - (LD)a) / 2; return (x - c) / h; }
inline LD to_canonical01(LD x, bool tr, double a, double b) { if (!tr) return x; return (x - (LD)a) / ((LD)b - (LD)a); }
// Fourier: point index -> frequency (DESIGN Appendix A): 0, -1, +1, -2, +2, ...
inline int fourier_freq(int i) { return (i % 2 == 0) ? (i + 1) / 2 : -((i + 1) / 2); }

// magnitude of the 1-D variable on the domain (floor of the tolerance scales): max |x| over the domain for bounded rules,
// a characteristic length joined with the node radius for the unbounded ones
inline LD domain_radius(const GridSpec &sp, int j, const std::vector<double> &pts, int N) {
    bool tr = !sp.ta.empty(); LD r = 0;
    bool unb = sp.family == F_GLOBAL && !sp.custom && rule_unbounded(sp.rule);
    if (!unb) r = tr ? std::max(fabsl((LD)sp.ta[(size_t)j]), fabsl((LD)sp.tb[(size_t)j])) : 1;
    else { LD a = tr ? sp.ta[(size_t)j] : 0, b = tr ? sp.tb[(size_t)j] : 1; r = fabsl(a) + (rule_laguerre(sp.rule) ? 1 / b : 1 / sqrtl(b)); }
    for (int i = 0; i < N; i++) r = std::max(r, fabsl((LD)pts[(size_t)i * (size_t)sp.dims + (size_t)j]));
    return r;
}

} } // namespace vf::c0203
