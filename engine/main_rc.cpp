// Driver: rapidcheck generation + shrinking over byte strings, and a replay mode that bypasses rapidcheck.
//   vdrive --prop C06 --mode rc --out stats.json --journal cur.case --failout fail.case [--known a,b] [--tier 1] [--workdir d]
//          (rapidcheck itself is configured only through RC_PARAMS="seed=.. max_success=.. max_size=..")
//   vdrive --prop C06 --mode replay --replay file [--no-exclude] [--text]
// Exit: 0 all held; 1 violation (line "FAIL oracle=... msg=..."); 2 usage/internal.
#include "common.hpp"
#include <rapidcheck.h>
#include <fcntl.h>
#include <unistd.h>
#include <csignal>
#include <fstream>
#include <iostream>
#include <ctime>

using namespace vf;

static const PropEntry *g_prop = nullptr;
static std::string g_out, g_journal, g_failout;
static int g_journal_fd = -1;

struct Stats {
    long evaluations = 0, nontrivial = 0, discarded = 0, failures = 0;
    std::set<uint64_t> hashes; std::map<std::string, long> labels, counters, excluded;
    std::vector<std::string> samples; std::string last_nontrivial; double max_ratio = 0; bool frozen = false;
} g_stats;

static std::string jesc(const std::string &s) { std::string o; for (unsigned char c : s) { if (c == '"' || c == '\\') { o += '\\'; o += (char)c; } else if (c == '\n') o += "\\n"; else if (c < 32) { char b[8]; snprintf(b, sizeof b, "\\u%04x", c); o += b; } else o += (char)c; } return o; }

static void dump_stats() {
    if (g_out.empty()) return;
    std::string tmp = g_out + ".tmp";
    FILE *f = fopen(tmp.c_str(), "w"); if (!f) return;
    fprintf(f, "{\"prop\":\"%s\",\"evaluations\":%ld,\"nontrivial\":%ld,\"discarded\":%ld,\"max_ratio\":%.6g,\n", g_prop ? g_prop->id : "", g_stats.evaluations, g_stats.nontrivial, g_stats.discarded, g_stats.max_ratio);
    fprintf(f, "\"rule\":\"%s\",\n", g_prop ? jesc(g_prop->rule).c_str() : "");
    auto dumpmap = [&](const char *name, const std::map<std::string, long> &m) { fprintf(f, "\"%s\":{", name); bool first = true; for (auto &kv : m) { fprintf(f, "%s\"%s\":%ld", first ? "" : ",", jesc(kv.first).c_str(), kv.second); first = false; } fprintf(f, "},\n"); };
    dumpmap("labels", g_stats.labels); dumpmap("counters", g_stats.counters); dumpmap("excluded", g_stats.excluded);
    if (g_stats.samples.empty() && !g_stats.last_nontrivial.empty()) g_stats.samples.push_back(g_stats.last_nontrivial);   // short runs: at least the last non-trivial case
    fprintf(f, "\"samples\":["); for (size_t i = 0; i < g_stats.samples.size(); i++) fprintf(f, "%s\"%s\"", i ? "," : "", jesc(g_stats.samples[i]).c_str()); fprintf(f, "],\n");
    fprintf(f, "\"hashes\":["); bool first = true; for (auto h : g_stats.hashes) { fprintf(f, "%s\"%016llx\"", first ? "" : ",", (unsigned long long)h); first = false; } fprintf(f, "]}\n");
    fclose(f); rename(tmp.c_str(), g_out.c_str());
}
extern "C" void __sanitizer_set_death_callback(void (*)(void)) __attribute__((weak));
static void on_death() { dump_stats(); }
static void on_alarm(int) { const char m[] = "WATCHDOG: case exceeded its time budget\n"; (void)!write(2, m, sizeof m - 1); dump_stats(); _exit(97); }

static void journal(const std::vector<uint8_t> &b) {
    if (g_journal_fd < 0) return;
    (void)!ftruncate(g_journal_fd, 0); (void)!pwrite(g_journal_fd, b.data(), b.size(), 0);
}

enum Outcome { PASS, FAIL, DISCARD };
struct RunResult { Outcome o = PASS; std::string oracle, msg; Ctx ctx; };

static RunResult run_case(const std::vector<uint8_t> &bytes, int budget_s) {
    RunResult r; Src s(bytes);
    alarm((unsigned)budget_s);
    try { g_prop->fn(s, r.ctx); }
    catch (Violation &v) { r.o = FAIL; r.oracle = v.oracle; r.msg = v.msg; }
    catch (Discard &) { r.o = DISCARD; }
    catch (std::runtime_error &e) {   // the documented rejection of a level beyond a finite rule table (gauss-patterson, custom-tabulated) ends a case wherever it surfaces
        std::string m = e.what();
        if (m.find("rule needed with level") != std::string::npos && m.find(", but only ") != std::string::npos) r.o = DISCARD;
        else { r.o = FAIL; r.oracle = std::string(g_prop->id) + ".unexpected-exception"; r.msg = m; } }
    catch (std::exception &e) { r.o = FAIL; r.oracle = std::string(g_prop->id) + ".unexpected-exception"; r.msg = e.what(); }
    catch (...) { r.o = FAIL; r.oracle = std::string(g_prop->id) + ".unexpected-exception"; r.msg = "non-std exception"; }
    alarm(0);
    return r;
}
static void account(const RunResult &r) {
    if (g_stats.frozen) return;
    g_stats.evaluations++;
    if (r.o == DISCARD) { g_stats.discarded++; return; }
    for (auto &l : r.ctx.labels) g_stats.labels[l]++;
    for (auto &kv : r.ctx.counters) g_stats.counters[kv.first] += kv.second;
    for (auto &e : r.ctx.excluded) g_stats.excluded[e]++;
    if (r.ctx.max_ratio > g_stats.max_ratio) g_stats.max_ratio = r.ctx.max_ratio;
    if (r.ctx.nontrivial) {
        g_stats.nontrivial++; g_stats.last_nontrivial = r.ctx.text;
        if (g_stats.hashes.insert(fnv1a(r.ctx.text)).second) { size_t h = g_stats.hashes.size();   // samples spread over the run (rapidcheck grows the size with the case index): the 40th, 160th, 640th ... distinct non-trivial case
            if (g_stats.samples.size() < 8 && (h == 40 || h == 160 || h == 640 || h == 2560 || h == 10240 || h == 40960)) g_stats.samples.push_back(r.ctx.text); }
    }
}

int main(int argc, char **argv) {
    std::string prop, mode = "rc", replay, known; bool text = false; int budget = 60;
    for (int i = 1; i < argc; i++) {
        std::string a = argv[i]; auto next = [&]() { return std::string(i + 1 < argc ? argv[++i] : ""); };
        if (a == "--prop") prop = next(); else if (a == "--mode") mode = next(); else if (a == "--out") g_out = next(); else if (a == "--journal") g_journal = next();
        else if (a == "--failout") g_failout = next(); else if (a == "--replay") replay = next(); else if (a == "--known") known = next(); else if (a == "--no-exclude") cfg().no_exclude = true;
        else if (a == "--tier") cfg().tier = atoi(next().c_str()); else if (a == "--workdir") cfg().workdir = next(); else if (a == "--text") { text = true; cfg().echo = true; } else if (a == "--budget") budget = atoi(next().c_str());
        else if (a == "--list") { for (auto &p : registry()) printf("%s\n", p.id); return 0; }
        else { fprintf(stderr, "unknown argument %s\n", a.c_str()); return 2; }
    }
    for (auto &p : registry()) if (prop == p.id) g_prop = &p;
    if (!g_prop) { fprintf(stderr, "unknown property %s\n", prop.c_str()); return 2; }
    { std::stringstream ks(known); std::string k; while (std::getline(ks, k, ',')) if (!k.empty()) cfg().known.insert(k); }
    signal(SIGALRM, on_alarm);
    if (__sanitizer_set_death_callback) __sanitizer_set_death_callback(on_death);

    if (mode == "replay") {
        std::ifstream f(replay, std::ios::binary); if (!f) { fprintf(stderr, "cannot open %s\n", replay.c_str()); return 2; }
        std::vector<uint8_t> bytes((std::istreambuf_iterator<char>(f)), std::istreambuf_iterator<char>());
        RunResult r = run_case(bytes, budget);
        if (r.o == FAIL) { printf("FAIL oracle=%s msg=%s\n", r.oracle.c_str(), r.msg.c_str()); return 1; }
        printf(r.o == DISCARD ? "DISCARD\n" : "PASS\n"); return 0;
    }
    if (!g_journal.empty()) g_journal_fd = open(g_journal.c_str(), O_CREAT | O_RDWR | O_TRUNC, 0644);
    std::vector<uint8_t> last_fail; std::string last_oracle, last_msg; time_t first_fail_time = 0; const long shrink_budget = 90;
    bool ok = rc::check(std::string("property ") + prop, [&]() {
        auto bytes = *rc::gen::container<std::vector<uint8_t>>(rc::gen::arbitrary<uint8_t>());
        // shrinking is time-boxed (cases of some properties spawn processes): after the budget every further shrink candidate is declined
        if (g_stats.frozen && time(nullptr) - first_fail_time > shrink_budget) return;
        journal(bytes);
        RunResult r = run_case(bytes, budget);
        account(r);
        if (r.o == FAIL) {
            if (!g_stats.frozen) first_fail_time = time(nullptr);
            g_stats.frozen = true; g_stats.failures++; last_fail = bytes; last_oracle = r.oracle; last_msg = r.msg;
            // the failing case is saved at once (and again for every smaller one), so that a shard stopped while shrinking still reports it
            if (!g_failout.empty()) { std::ofstream f(g_failout + ".tmp", std::ios::binary); f.write((const char *)bytes.data(), (std::streamsize)bytes.size()); f.close(); rename((g_failout + ".tmp").c_str(), g_failout.c_str()); }
            RC_FAIL(r.oracle + ": " + r.msg); }
    });
    dump_stats();
    if (!ok) {
        if (!g_failout.empty()) { std::ofstream f(g_failout, std::ios::binary); f.write((const char *)last_fail.data(), (std::streamsize)last_fail.size()); }
        printf("FAIL oracle=%s msg=%s\n", last_oracle.c_str(), last_msg.c_str());
        return 1;
    }
    return 0;
}
