// Shared decoding of a C17 configuration (used by the driver process and by the check, which must agree on the value model and the budget).
#pragma once
#include "grid.hpp"
namespace vf {
struct C17Config { size_t budget = 6, batch = 1, workers = 1; bool parallel = false; };
// big = construction beyond 1000 loaded points (the addon then keeps completed samples in a side buffer that is part of the checkpoint); thorough tier only
inline C17Config c17_decode(Src &s, GridState &st, bool big) {
    SpecOpts so; so.nonnested = false; so.custom = false; so.conformal = false; so.transforms = false; so.min_outs = 1; so.max_outs = 2; so.cap = 30; so.max_dims = 2;
    st.spec = decode_spec(s, so); st.vm.decode(s); if (st.spec.depth > 1) st.spec.depth = 1;
    C17Config c;
    c.budget = 6 + (size_t)s.pick(20); c.batch = 1 + (size_t)s.pick(2); c.parallel = s.chance(1, 3); c.workers = c.parallel ? 2 + (size_t)s.pick(2) : 1;
    if (big) { GridSpec b; b.family = F_LOCALP; b.dims = 2; b.outs = 1; b.depth = 1; b.rule = rule_localp; b.order = 1; st.spec = b; st.vm.bump = 2.0; st.vm.sharp = 20.0; c.budget = 1050 + 50 * (c.budget % 6); c.batch = 1 + c.batch % 2 * 3; }
    make_grid(st.g, st.spec, so.cap);
    return c;
}
}
