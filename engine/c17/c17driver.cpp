// C17 driver (plain build): one process = one call of constructSurrogate with a checkpoint file. The configuration is decoded from a case
// file; every model call is appended (unbuffered write(2)) to the same log the fault injector writes to, so the order of samples and
// file-system operations is recorded. Usage: c17driver <case file> <checkpoint path> <log path> <final grid path>
#include "c17config.hpp"
#include "TasmanianAddons.hpp"
#include <fcntl.h>
#include <unistd.h>
#include <mutex>
using namespace vf;
int main(int argc, char **argv) {
    if (argc < 5) return 2;
    std::ifstream f(argv[1], std::ios::binary); std::vector<uint8_t> bytes((std::istreambuf_iterator<char>(f)), std::istreambuf_iterator<char>());
    Src s(bytes);
    int logfd = open(argv[3], O_WRONLY | O_APPEND | O_CREAT, 0644);
    try {
        GridState st; C17Config cf = c17_decode(s, st, getenv("VERIF_C17_BIG") != nullptr);
        int d = st.spec.dims, outs = st.spec.outs; bool local = st.spec.family == F_LOCALP || st.spec.family == F_WAVE;
        size_t budget = cf.budget, batch = cf.batch; bool parallel = cf.parallel; size_t workers = cf.workers;
        std::mutex m;
        ModelSignature model = [&](std::vector<double> const &x, std::vector<double> &y, size_t) { size_t k = x.size() / (size_t)d; y.resize(k * (size_t)outs);
            for (size_t i = 0; i < k; i++) { for (int o = 0; o < outs; o++) y[i * (size_t)outs + (size_t)o] = st.vm(&x[i * (size_t)d], d, o, 0);
                std::string line = "SAMPLE"; for (int j = 0; j < d; j++) line += " " + hexd(x[i * (size_t)d + (size_t)j]); line += "\n"; std::lock_guard<std::mutex> l(m); if (write(logfd, line.data(), line.size()) < 0) _exit(3); } };
        { std::string h = "RUN " + st.spec.text() + " budget=" + std::to_string(budget) + " batch=" + std::to_string(batch) + (parallel ? " parallel workers=" + std::to_string(workers) : " sequential") + "\n"; if (write(logfd, h.data(), h.size()) < 0) _exit(3); }
        std::string ck = argv[2];
        if (local) { double tol = 1e-4; if (parallel) constructSurrogate<mode_parallel>(model, budget, workers, batch, st.g, tol, refine_classic, -1, std::vector<int>(), ck); else constructSurrogate<mode_sequential>(model, budget, 1, batch, st.g, tol, refine_classic, -1, std::vector<int>(), ck); }
        else { std::vector<int> aw((size_t)d, 1); if (parallel) constructSurrogate<mode_parallel>(model, budget, workers, batch, st.g, type_level, aw, std::vector<int>(), ck); else constructSurrogate<mode_sequential>(model, budget, 1, batch, st.g, type_level, aw, std::vector<int>(), ck); }
        st.g.finishConstruction();
        st.g.write(argv[4], true);
        const char e[] = "DONE\n"; if (write(logfd, e, sizeof e - 1) < 0) _exit(3);
    } catch (Discard &) { const char e[] = "DISCARD\n"; (void)!write(logfd, e, sizeof e - 1); return 0; }
    catch (std::exception &x) { std::string e = std::string("EXCEPTION ") + x.what() + "\n"; (void)!write(logfd, e.data(), e.size()); return 4; }
    return 0;
}
