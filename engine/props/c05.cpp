// C05 - differentiate() returns the gradient of the surrogate.
// Generator: grid spec (all families / rules, local polynomial orders -1,0..5, d <= 3, outputs 1-3, never a conformal map: the API
// documents no derivative under conformal maps) x short load/refine history x value model. Every case works on a pair of grids with
// identical points and values: A without and B with a linear domain transform (the one of the spec, or one decoded here).
// Test points are generated in canonical coordinates and mapped with the harness' own maps (maps.hpp):
//   generic  - strictly interior; for the local families inside a cell of the lattice that contains every break point of every basis
//              function (dyadic lattice of the finest node spacing; triadic cell edges for order 0), with the whole stencil in the cell;
//   node     - exactly at a grid node that is strictly inside the domain (one-sided derivatives of local bases; removable 0/0 of
//              Lagrange derivative formulas).
// Oracles:
//   (a) C05.exact       values of a member of the reproduced space are loaded (monomials of getGlobalPolynomialSpace(true) for Global and
//                       Sequence grids - the vanishing members (1-t^2) t^m for clenshaw-curtis-zero -, trigonometric modes of the
//                       frequency set for Fourier grids, affine functions for wavelets and local polynomials of order != 0 that include
//                       the boundary): differentiate() must equal the analytic gradient (generic and node points);
//   (b) C05.finite-diff generic data: 4-th order central differences of evaluate() with steps h and h/2, Richardson-combined; the two
//                       steps must agree with each other first (otherwise the point is skipped and counted);
//   (c) C05.chain-rule  differentiate_B(x) == differentiate_A(g(x)) * g'  with g = transformed -> canonical from maps.hpp.
// Scales: D_kj = sum_i |w_ij| |v_ik| with w = getDifferentiationWeights(x) (documented: Jacobian = values x weights), floored by
// sum_i |iw_i||v_ik| / domain length so that a sum of rounding noise is never compared with a scale that is itself noise.
#include "history.hpp"
#include "refmodel/maps.hpp"

namespace vf {
namespace {

using LD = long double;
struct Member {   // f_k(t) and d f_k / d t_j in canonical coordinates
    std::string text;
    std::function<LD(const LD *, int)> f;
    std::function<LD(const LD *, int, int)> df;
};

struct XPt { std::vector<double> t, h; bool node = false; };

const double PI_D = 3.14159265358979323846;
const LD PI_L = 3.14159265358979323846264338327950288L;

// scale of the Jacobian entry (k,j) at x of grid g: sum_i |w_ij||v_ik|, plus the value scale sum_i |iw_i||v_ik|
void scales(const TasmanianSparseGrid &g, const std::vector<double> &x, std::vector<double> &D, std::vector<double> &S) {
    int d = g.getNumDimensions(), outs = g.getNumOutputs(), n = g.getNumLoaded();
    std::vector<double> dw = g.getDifferentiationWeights(x), iw; g.getInterpolationWeights(x, iw);
    const double *v = g.getLoadedValues();
    D.assign((size_t)outs * (size_t)d, 0.0); S.assign((size_t)outs, 0.0); std::vector<double> vmax((size_t)outs, 0.0);
    for (int i = 0; i < n; i++) for (int k = 0; k < outs; k++) { double av = std::fabs(v[(size_t)i * (size_t)outs + (size_t)k]);
        S[(size_t)k] += std::fabs(iw[(size_t)i]) * av; vmax[(size_t)k] = std::max(vmax[(size_t)k], av);
        for (int j = 0; j < d; j++) D[(size_t)k * (size_t)d + (size_t)j] += std::fabs(dw[(size_t)i * (size_t)d + (size_t)j]) * av; }
    for (int k = 0; k < outs; k++) S[(size_t)k] = std::max(S[(size_t)k], vmax[(size_t)k]);   // floor: the magnitude of the data (on a coordinate plane of zeros of the weights both sums are rounding noise)
}

} // namespace

void check_C05(Src &s, Ctx &ctx) {
    SpecOpts so; so.max_dims = 3; so.min_outs = 1; so.max_outs = 3; so.conformal = false; so.cap = cfg().tier ? 400 : 300;
    // family first, biased so that every local polynomial order and both wavelet orders get a fair share
    // (rapidcheck draws small byte values far more often than large ones: choices that must be balanced go through a multiplicative scramble;
    //  an exhausted input still yields index 0)
    auto mix = [&](int k) { return (int)((s.byte() * 37u) % (unsigned)k); };
    static const int fam_of[16] = {F_LOCALP, F_GLOBAL, F_WAVE, F_FOURIER, F_LOCALP, F_SEQ, F_GLOBAL, F_LOCALP, F_WAVE, F_FOURIER, F_LOCALP, F_GLOBAL, F_SEQ, F_LOCALP, F_WAVE, F_FOURIER};
    so.fam_mask = 1u << fam_of[mix(16)];
    const int order_sel = mix(14), nx = 3 + mix(4); const unsigned node_mask = s.byte() * 37u;   // early bytes: these choices should not starve when the input is short
    so.min_depth = mix(8) == 7 ? 0 : 1;
    GridState st; st.cap = so.cap; st.ctx = &ctx;
    st.spec = decode_spec(s, so); st.vm.decode(s);
    if (st.spec.family == F_LOCALP) { static const int orders[7] = {1, 2, 3, 0, -1, 4, 5}; st.spec.order = orders[order_sel % 7]; }
    if (st.spec.family == F_WAVE) st.spec.order = (order_sel % 2) ? 3 : 1;
    make_grid(st.g, st.spec, so.cap);
    ctx.log(st.spec.text()); ctx.log(st.vm.text());
    static const std::vector<int> kinds = {OP_REF_SURP, OP_REF_SURP, OP_REF_ANISO, OP_UPDATE, OP_LOAD, OP_RELOAD};
    // size budget: a proposal that would take the grid beyond the budget is cancelled (a legal clearRefinement) before anything is loaded
    const int budget = (st.spec.family == F_WAVE) ? so.cap : 2 * so.cap;   // wavelets pay a dense solve per load
    run_history(s, st, kinds, 1 + s.pick(4), true, [&](const Op &) { if (st.g.getNumLoaded() > 0 && st.g.getNumNeeded() > 0 && st.g.getNumLoaded() + st.g.getNumNeeded() > budget) { st.g.clearRefinement(); st.note("ClearRef(size)"); } });
    if (st.g.getNumNeeded() > 0) { Op ld; ld.kind = OP_LOAD; apply_op(st, ld); }   // finish the history with a complete surrogate
    const GridSpec &sp = st.spec; const int d = sp.dims, outs = sp.outs;
    const maps::Dom dom = maps::dom_of(sp);
    const bool local = sp.family == F_LOCALP || sp.family == F_WAVE;
    const bool pwc = sp.family == F_LOCALP && sp.order == 0;

    // ---- the pair: A canonical, B transformed, same points (by index) and values
    TasmanianSparseGrid A = st.g, B = st.g;
    std::vector<double> ta = sp.ta, tb = sp.tb;
    bool own_transform = ta.empty();
    if (!own_transform) A.clearDomainTransform();
    else {
        for (int j = 0; j < d; j++) { auto ab = (dom == maps::DLAGUERRE || dom == maps::DHERMITE) ? s.of(UNBOUNDED_AB) : s.of(BOUNDED_AB); ta.push_back(ab.first); tb.push_back(ab.second); }
        B.setDomainTransform(ta, tb);
        ctx.log("twin transform a=[" + joind(ta) + "] b=[" + joind(tb) + "]");
    }
    // one case in three reaches the transform of B through a history of transforms: another box is set first, the grid is used (differentiate,
    // weights), then the final box replaces it through the raw-array overload or after clearDomainTransform(): nothing cached may survive
    if (s.chance(1, 3) && B.getNumLoaded() > 0) {
        std::vector<double> oa, ob; for (int j = 0; j < d; j++) { auto ab = (dom == maps::DLAGUERRE || dom == maps::DHERMITE) ? UNBOUNDED_AB[(size_t)(j + 1) % UNBOUNDED_AB.size()] : BOUNDED_AB[(size_t)(j + 3) % BOUNDED_AB.size()]; oa.push_back(ab.first); ob.push_back(ab.second + 0.5); }
        B.setDomainTransform(oa, ob);
        { std::vector<double> x0((size_t)d), jac; auto lp = B.getLoadedPoints(); for (int j = 0; j < d; j++) x0[(size_t)j] = lp[(size_t)j]; B.differentiate(x0, jac); (void)B.getDifferentiationWeights(x0); std::vector<double> y; B.evaluate(x0, y); }
        int how = s.pick(3);
        if (how == 0) B.setDomainTransform(ta.data(), tb.data()); else if (how == 1) { B.clearDomainTransform(); B.setDomainTransform(ta, tb); } else B.setDomainTransform(ta, tb);
        ctx.log(std::string("B reached its transform after using another one (") + (how == 0 ? "raw-array overload" : how == 1 ? "clear + set" : "vector overload") + ")"); ctx.label("transform:re-set");
    }
    const int n = A.getNumLoaded();
    VF_REQUIRE("C05.setup", n > 0 && B.getNumLoaded() == n, "no loaded values after the history");
    std::vector<double> PA = A.getLoadedPoints();   // canonical nodes
    std::vector<LD> dtdx((size_t)d); for (int j = 0; j < d; j++) dtdx[(size_t)j] = 1.0L / maps::dxdt(dom, ta[(size_t)j], tb[(size_t)j]);

    // ---- canonical box and resolution per direction
    std::vector<double> lo((size_t)d), hi((size_t)d), gap((size_t)d), q((size_t)d, 0.0);
    for (int j = 0; j < d; j++) {
        std::vector<double> c; for (int i = 0; i < n; i++) c.push_back(PA[(size_t)i * (size_t)d + (size_t)j]);
        std::sort(c.begin(), c.end()); c.erase(std::unique(c.begin(), c.end()), c.end());
        double mx = std::max(std::fabs(c.front()), std::fabs(c.back()));
        switch (dom) { case maps::DFOURIER: lo[(size_t)j] = 0; hi[(size_t)j] = 1; break;
            case maps::DLAGUERRE: lo[(size_t)j] = 0; hi[(size_t)j] = std::max(1.0, mx); break;          // convex hull of the nodes (0 is the true boundary)
            case maps::DHERMITE: lo[(size_t)j] = -std::max(1.0, mx); hi[(size_t)j] = std::max(1.0, mx); break;
            default: lo[(size_t)j] = -1; hi[(size_t)j] = 1; }
        double L = hi[(size_t)j] - lo[(size_t)j], g = L; for (size_t i = 0; i + 1 < c.size(); i++) g = std::min(g, c[i + 1] - c[i]);
        gap[(size_t)j] = g;
    }
    if (local) {   // lattice that contains every break point of every basis function
        std::vector<double> supp = A.getHierarchicalSupport();
        for (int j = 0; j < d; j++) {
            if (pwc) { double m = 2.0; for (int i = 0; i < n; i++) m = std::min(m, supp[(size_t)i * (size_t)d + (size_t)j]); q[(size_t)j] = m; }   // cells [-1 + 2k/3^l, -1 + (2k+2)/3^l]
            else { int M = 0; for (int i = 0; i < n; i++) M = std::max(M, h1d::dyadic_m(PA[(size_t)i * (size_t)d + (size_t)j])); q[(size_t)j] = std::ldexp(1.0, -(M + 1));   // nodes k/2^M, breaks of level-M functions at k/2^(M+1)
                   // cubic wavelets are evaluated from a table of 1025 points by local cubic interpolation (piece-wise cubic, tiny kinks at every table node): the cell
                   // must not contain a table node of any function: spacing 2^-9 for the coarse functions and 2^-(M+4) for the finest level (node k/2^M)
                   if (sp.family == F_WAVE && sp.order == 3) q[(size_t)j] = std::ldexp(1.0, -std::max(9, M + 4)); }
        }
    }
    std::vector<int> interior_nodes;
    const bool lo_real = dom != maps::DHERMITE, hi_real = dom == maps::D11 || dom == maps::DFOURIER;   // is the end of the canonical box a boundary of the domain?
    for (int i = 0; i < n; i++) { bool in = true; for (int j = 0; j < d; j++) { double c = PA[(size_t)i * (size_t)d + (size_t)j]; if ((lo_real && !(c > lo[(size_t)j])) || (hi_real && !(c < hi[(size_t)j]))) in = false; } if (in) interior_nodes.push_back(i); }

    const bool wave3 = sp.family == F_WAVE && sp.order == 3;
    // finding C05-cubic-wavelet-derivative-at-table-nodes: the cubic wavelets are tabulated on 1025 points and evaluated by local cubic interpolation; at a
    // coordinate that is exactly a node of the table (every dyadic k/512 for the coarse functions, hence every grid node) the reflected functions take
    // the stencil of the other side (and the central scaling function is forced to derivative 0 at exactly 0): the one-sided derivatives do not sum
    // to the derivative of an affine member (error ~1e-4..1e-3 of the values). Excluded class: cubic wavelets x dyadic coordinates.
    const bool excl_w3 = wave3 && ctx.excl("C05-cubic-wavelet-derivative-at-table-nodes");
    auto gen_point = [&](bool want_node) {
        XPt p; p.t.resize((size_t)d); p.h.resize((size_t)d);
        if (want_node && !interior_nodes.empty() && !excl_w3) {
            int i = interior_nodes[(size_t)(s.u16() % interior_nodes.size())]; p.node = true;
            for (int j = 0; j < d; j++) { double c = PA[(size_t)i * (size_t)d + (size_t)j], L = hi[(size_t)j] - lo[(size_t)j]; p.t[(size_t)j] = c;
                double room = std::min(lo_real ? c - lo[(size_t)j] : L, hi_real ? hi[(size_t)j] - c : L);
                p.h[(size_t)j] = std::min({5e-4 * L, 0.02 * gap[(size_t)j], 0.2 * room}); }
            return p;
        }
        for (int j = 0; j < d; j++) {
            double L = hi[(size_t)j] - lo[(size_t)j];
            if (local) {
                static const double fr[] = {0.5, 0.3, 0.7, 0.15, 0.85, 0.41};
                long cells = std::lround(2.0 / q[(size_t)j]); long k = (long)(s.u16() % (unsigned long)cells); double f = fr[s.pick(6)]; if (excl_w3 && f == 0.5) f = 0.41;
                p.t[(size_t)j] = -1.0 + ((double)k + f) * q[(size_t)j]; p.h[(size_t)j] = 0.05 * std::min(f, 1.0 - f) * q[(size_t)j];
            } else {
                double u = ((double)s.u16() + 0.5) / 65536.0;
                p.t[(size_t)j] = lo[(size_t)j] + L * (0.01 + 0.98 * u); p.h[(size_t)j] = std::min(5e-4 * L, 0.02 * gap[(size_t)j]);
            }
        }
        return p;
    };
    auto to_x = [&](const std::vector<double> &t) { std::vector<double> x((size_t)d); for (int j = 0; j < d; j++) x[(size_t)j] = (double)maps::fwd(dom, ta[(size_t)j], tb[(size_t)j], t[(size_t)j]); return x; };

    std::vector<XPt> X; for (int r = 0; r < nx; r++) X.push_back(gen_point(((node_mask >> r) & 3u) == 1u));
    long n_nodes = 0; for (auto &p : X) n_nodes += p.node;
    { std::ostringstream o; o << nx << " x (" << n_nodes << " at nodes):"; for (auto &p : X) o << " (" << joind(p.t) << ")"; ctx.log(o.str()); }

    // tolerances (calibrated on the unchanged tree, see the evidence)
    const double tau_agree = 1e-5, tau_fd = 1e-6, tau_chain = 1e-8, tau_exact = wave3 ? 1e-7 : 1e-8;
    long fd_done = 0, fd_skipped = 0, chain_done = 0, exact_done = 0;

    // ---- (b) finite differences of evaluate() and (c) chain rule, on the data of the history
    for (int r = 0; r < nx; r++) {
        const XPt &p = X[(size_t)r];
        bool smooth_here = !(local && p.node);   // at a node of a local basis the surrogate has a kink: only oracle (a) applies there
        if (!smooth_here) continue;
        std::vector<double> x = to_x(p.t), JA, JB; A.differentiate(p.t, JA); B.differentiate(x, JB);
        VF_REQUIRE("C05.size", JA.size() == (size_t)outs * (size_t)d && JB.size() == JA.size(), "differentiate returned " << JB.size() << " entries for " << outs << " outputs and " << d << " dimensions");
        std::vector<double> DA, SA; scales(A, p.t, DA, SA);
        // (c)
        for (int k = 0; k < outs; k++) for (int j = 0; j < d; j++) { size_t e = (size_t)k * (size_t)d + (size_t)j; double gp = (double)dtdx[(size_t)j];
            double sc = (DA[e] + SA[(size_t)k] / (hi[(size_t)j] - lo[(size_t)j])) * std::fabs(gp);
            close_booked(ctx, "C05.chain-rule", JB[e], (double)((LD)JA[e] * dtdx[(size_t)j]), sc, tau_chain, [&]() { std::ostringstream o; o << "differentiate with transform [" << decd(ta[(size_t)j]) << "," << decd(tb[(size_t)j]) << "] at x=(" << joind(x) << ") output " << k << " direction " << j << " vs canonical derivative " << decd(JA[e]) << " at t=(" << joind(p.t) << ") times dt/dx=" << decd(gp); return o.str(); }); }
        chain_done++; ctx.count("chain-rule-points");
        // (b) on the transformed or on the canonical grid
        bool onB = s.chance(2, 3); const TasmanianSparseGrid &G = onB ? B : A; const std::vector<double> &x0 = onB ? x : p.t; const std::vector<double> &J = onB ? JB : JA;
        std::vector<double> y((size_t)outs);
        for (int j = 0; j < d; j++) {
            double gp = onB ? (double)dtdx[(size_t)j] : 1.0, h = p.h[(size_t)j] / std::fabs(gp);
            auto fd = [&](double hh, std::vector<double> &out) {
                out.assign((size_t)outs, 0.0); std::vector<double> xx = x0; static const double cf[4] = {1.0, -8.0, 8.0, -1.0}; static const double st4[4] = {-2.0, -1.0, 1.0, 2.0};
                for (int m = 0; m < 4; m++) { xx[(size_t)j] = x0[(size_t)j] + st4[m] * hh; G.evaluate(xx.data(), y.data()); for (int k = 0; k < outs; k++) out[(size_t)k] += cf[m] * y[(size_t)k]; }
                for (int k = 0; k < outs; k++) out[(size_t)k] /= 12.0 * hh; };
            std::vector<double> f1, f2; fd(h, f1); fd(0.5 * h, f2);
            for (int k = 0; k < outs; k++) { size_t e = (size_t)k * (size_t)d + (size_t)j;
                // scale: derivative scale + rounding noise of the stencil (eps S / h) expressed with the same tau
                double sc = (DA[e] + SA[(size_t)k] / (hi[(size_t)j] - lo[(size_t)j])) * std::fabs(gp) + 1e-6 * SA[(size_t)k] / h;
                if (!(std::fabs(f1[(size_t)k] - f2[(size_t)k]) <= tau_agree * sc)) { fd_skipped++; ctx.count("fd-skipped-steps-disagree"); continue; }
                double rich = (16.0 * f2[(size_t)k] - f1[(size_t)k]) / 15.0;
                close_booked(ctx, "C05.finite-diff", J[e], rich, sc, tau_fd, [&]() { std::ostringstream o; o << fam_name(sp.family) << ": differentiate (" << (onB ? "transformed" : "canonical") << " grid) at (" << joind(x0) << ") output " << k << " direction " << j << " vs Richardson central difference of evaluate (h=" << decd(h) << ": " << decd(f1[(size_t)k]) << ", h/2: " << decd(f2[(size_t)k]) << ")"; return o.str(); });
                fd_done++; ctx.count("fd-comparisons"); }
        }
    }

    // ---- (a) members of the reproduced space
    Member mem; bool have_member = false; std::string why_not;
    std::vector<double> T((size_t)d, 1.0); if (dom == maps::DLAGUERRE || dom == maps::DHERMITE) for (int j = 0; j < d; j++) T[(size_t)j] = hi[(size_t)j];
    static const std::vector<double> cpal = {1.0, -0.5, 0.75, 2.0, -1.25, 0.3};
    if (sp.family == F_GLOBAL || sp.family == F_SEQ) {
        std::vector<int> space = A.getGlobalPolynomialSpace(true); size_t ns = space.size() / (size_t)d;
        bool cc0 = sp.family == F_GLOBAL && !sp.custom && sp.rule == rule_clenshawcurtis0;
        // zero-boundary rule (DESIGN 2.9): the basis on the tensor of levels l spans prod_j (1-t_j^2) P_(declared_j - 3): members are the
        // declared multi-indices with every entry >= 3, shifted down by 3 and multiplied by prod (1 - t_j^2)
        std::vector<size_t> usable; for (size_t m = 0; m < ns; m++) { bool ok = true; if (cc0) for (int j = 0; j < d; j++) if (space[m * (size_t)d + (size_t)j] < 3) ok = false; if (ok) usable.push_back(m); }
        if (usable.empty()) why_not = "no-member";
        else {
            int terms = 1 + s.pick(3); std::vector<std::vector<int>> ex; std::vector<std::vector<double>> cf((size_t)outs);
            std::ostringstream o; o << (cc0 ? "prod(1-t^2) * " : "") << "monomials";
            for (int m = 0; m < terms; m++) { size_t q0 = usable[(size_t)(m == 0 ? (s.chance(1, 2) ? usable.size() - 1 - (s.u16() % std::min<size_t>(usable.size(), 4)) : s.u16() % usable.size()) : s.u16() % usable.size())];
                std::vector<int> e(space.begin() + (long)(q0 * (size_t)d), space.begin() + (long)((q0 + 1) * (size_t)d)); if (cc0) for (auto &v : e) v -= 3; ex.push_back(e); o << " t^(" << join(e) << ")";
                for (int k = 0; k < outs; k++) cf[(size_t)k].push_back(cpal[(size_t)((m * 2 + k * 3 + (int)q0) % 6)]); }
            mem.text = o.str();
            auto term = [ex, T, cc0, d](const LD *t, size_t m, int dj) {   // product over directions, direction dj differentiated (dj = -1: value)
                LD v = 1; for (int j = 0; j < d; j++) { LD u = t[j] / (LD)T[(size_t)j]; int e = ex[m][(size_t)j]; LD w = cc0 ? (1 - u * u) : 1.0L;
                    if (j != dj) v *= w * powl(u, (LD)e);
                    else { LD dm = e == 0 ? 0.0L : (LD)e * powl(u, (LD)(e - 1)); v *= (cc0 ? (-2 * u * powl(u, (LD)e) + w * dm) : dm) / (LD)T[(size_t)j]; } }
                return v; };
            mem.f = [term, cf, terms](const LD *t, int k) { LD v = 0; for (int m = 0; m < terms; m++) v += (LD)cf[(size_t)k][(size_t)m] * term(t, (size_t)m, -1); return v; };
            mem.df = [term, cf, terms](const LD *t, int k, int j) { LD v = 0; for (int m = 0; m < terms; m++) v += (LD)cf[(size_t)k][(size_t)m] * term(t, (size_t)m, j); return v; };
            have_member = true; ctx.label(cc0 ? "exact:cc0-vanishing-polynomials" : "exact:monomials");
        }
    } else if (sp.family == F_FOURIER) {
        // frequency of 1-D point index i: +(i+1)/2 for even i, -(i+1)/2 for odd i (DESIGN appendix A); a real mode needs the mirrored index too
        const int *idx = A.getPointsIndexes(); std::set<std::vector<int>> have; for (int i = 0; i < n; i++) have.insert(std::vector<int>(idx + (size_t)i * (size_t)d, idx + (size_t)(i + 1) * (size_t)d));
        int terms = 1 + s.pick(3); std::vector<std::vector<int>> kap; std::vector<double> ph; std::vector<std::vector<double>> cf((size_t)outs); std::ostringstream o; o << "trig modes";
        for (int m = 0; m < terms; m++) { int i = (m == 0 && s.chance(1, 2)) ? n - 1 - (int)(s.u16() % (unsigned)std::min(n, 4)) : (int)(s.u16() % (unsigned)n);
            std::vector<int> mi(idx + (size_t)i * (size_t)d, idx + (size_t)(i + 1) * (size_t)d), mir = mi, kv((size_t)d);
            for (int j = 0; j < d; j++) { int v = mi[(size_t)j]; mir[(size_t)j] = v == 0 ? 0 : (v % 2 ? v + 1 : v - 1); kv[(size_t)j] = v % 2 == 0 ? (v + 1) / 2 : -(v + 1) / 2; }
            if (!have.count(mir)) { ctx.count("fourier-mirror-index-missing"); continue; }
            kap.push_back(kv); ph.push_back(0.37 * (double)s.pick(16)); o << " k=(" << join(kv) << ")";
            for (int k = 0; k < outs; k++) cf[(size_t)k].push_back(cpal[(size_t)((m + 2 * k + i) % 6)]); }
        if (kap.empty()) why_not = "no-member";
        else {
            mem.text = o.str();
            mem.f = [kap, ph, cf, d](const LD *t, int k) { LD v = 0.5L * (k + 1); for (size_t m = 0; m < kap.size(); m++) { LD a = (LD)ph[m]; for (int j = 0; j < d; j++) a += 2 * PI_L * (LD)kap[m][(size_t)j] * t[j]; v += (LD)cf[(size_t)k][m] * cosl(a); } return v; };
            mem.df = [kap, ph, cf, d](const LD *t, int k, int dj) { LD v = 0; for (size_t m = 0; m < kap.size(); m++) { LD a = (LD)ph[m]; for (int j = 0; j < d; j++) a += 2 * PI_L * (LD)kap[m][(size_t)j] * t[j]; v -= (LD)cf[(size_t)k][m] * 2 * PI_L * (LD)kap[m][(size_t)dj] * sinl(a); } return v; };
            have_member = true; ctx.label("exact:trig-modes");
        }
    } else {
        // affine functions: wavelets and local polynomials of order != 0 on rules that include the boundary. A direction carries a slope only
        // if the grid can represent it: localp / semi-localp need the two level-1 nodes (root of the other directions, +-1 in this one).
        if (pwc) why_not = "order0"; else if (sp.family == F_LOCALP && sp.rule == rule_localp0) why_not = "zero-boundary";
        // DESIGN 2.9: a local polynomial grid interpolates (hence reproduces its span) only if every loaded point has all of its parents loaded; selective
        // refinement may add a child of one parent only (seen: semi-localp (1,-1,-1/2) without (1,-1,1): the surplus of an affine function is then not 0)
        else if (sp.family == F_LOCALP && !parent_complete(st) && !dag_closed(st)) why_not = "incomplete-hierarchy";   // (gaps are fine when the ancestor walk is closed, see history.hpp)
        else {
            std::set<Coord> have; for (int i = 0; i < n; i++) have.insert(coord_of(&PA[(size_t)i * (size_t)d], d));
            std::vector<double> slope((size_t)d, 0.0); int nslope = 0;
            for (int j = 0; j < d; j++) { bool cap = true;
                if (sp.family == F_LOCALP && (sp.rule == rule_localp || sp.rule == rule_semilocalp)) { Coord c((size_t)d, 0.0); c[(size_t)j] = -1.0; bool m1 = have.count(c) > 0; c[(size_t)j] = 1.0; cap = m1 && have.count(c) > 0; }
                if (cap) { slope[(size_t)j] = cpal[(size_t)s.pick(6)]; nslope++; } }
            if (nslope == 0) why_not = "depth0";
            else { std::ostringstream o; o << "affine slopes=(" << joind(slope) << ")"; mem.text = o.str();
                mem.f = [slope, d](const LD *t, int k) { LD v = 0.25L + k; for (int j = 0; j < d; j++) v += (LD)slope[(size_t)j] * (1 + 0.5L * k) * t[j]; return v; };
                mem.df = [slope](const LD *, int k, int j) { return (LD)slope[(size_t)j] * (1 + 0.5L * k); };
                have_member = true; ctx.label("exact:affine"); }
        }
    }
    if (have_member) {
        ctx.log("member: " + mem.text);
        std::vector<double> vals((size_t)n * (size_t)outs); std::vector<LD> t((size_t)d);
        for (int i = 0; i < n; i++) { for (int j = 0; j < d; j++) t[(size_t)j] = PA[(size_t)i * (size_t)d + (size_t)j]; for (int k = 0; k < outs; k++) vals[(size_t)i * (size_t)outs + (size_t)k] = (double)mem.f(t.data(), k); }
        bool onB = s.chance(2, 3); TasmanianSparseGrid E = onB ? B : A;
        if (E.getNumNeeded() > 0) E.clearRefinement();
        E.loadNeededValues(vals);   // no needed points: documented to overwrite the loaded values
        for (int r = 0; r < nx; r++) {
            const XPt &p = X[(size_t)r];
            std::vector<double> x = onB ? to_x(p.t) : p.t, J; E.differentiate(x, J);
            std::vector<double> D, S; scales(E, x, D, S);
            for (int j = 0; j < d; j++) t[(size_t)j] = p.t[(size_t)j];
            for (int k = 0; k < outs; k++) for (int j = 0; j < d; j++) { size_t e = (size_t)k * (size_t)d + (size_t)j; LD gp = onB ? dtdx[(size_t)j] : 1.0L;
                double expect = (double)(mem.df(t.data(), k, j) * gp);
                double sc = std::max(D[e] + S[(size_t)k] / (hi[(size_t)j] - lo[(size_t)j]) * std::fabs((double)gp), std::fabs(expect));
                close_booked(ctx, "C05.exact", J[e], expect, sc, tau_exact, [&]() { std::ostringstream o; o << "differentiate (" << (onB ? "transformed" : "canonical") << " grid, " << (p.node ? "x at a node" : "generic x") << ") of the member [" << mem.text << "] at t=(" << joind(p.t) << ") output " << k << " direction " << j; return o.str(); }); }
            exact_done++; ctx.count(p.node ? "exact-points-at-nodes" : "exact-points-generic");
        }
    } else { ctx.label("exact:none(" + why_not + ")"); }

    // ---- classes
    ctx.label(std::string("fam:") + fam_name(sp.family)); ctx.label("d:" + std::to_string(d));
    if (sp.family == F_LOCALP) { ctx.label("lp:o" + std::to_string(sp.order)); ctx.label("lp:" + rule_name(sp.rule)); }
    if (sp.family == F_WAVE) ctx.label("wave:o" + std::to_string(sp.order));
    if (sp.family == F_GLOBAL) ctx.label(sp.custom ? "global:custom" : (dom == maps::DLAGUERRE || dom == maps::DHERMITE) ? "global:unbounded" : (sp.nested() ? "global:nested" : "global:non-nested"));
    if (n_nodes) ctx.label("x:node"); if (st.n_refine > 0) ctx.label("hist:refined");
    ctx.label(own_transform ? "transform:twin-only" : "transform:spec");
    if (fd_skipped) ctx.label("fd:some-skipped"); if (fd_done) ctx.label("fd:compared");
    // ---- after removePointsByHierarchicalCoefficient (one local polynomial case in four, from the last byte): the remaining basis functions keep their shape, their parents may be
    // gone (several roots, disconnected hierarchy); differentiate() must still be the gradient of evaluate(). Compared at points (k + 1/3) h_j of the finest spacing h_j of the
    // ORIGINAL grid in each direction - every break point of every basis function is a multiple of h_j - with central differences of step h_j / 1024.
    if (sp.family == F_LOCALP && sp.order != 0 && s.n >= 3 && (s.p[s.n - 1] % 4) == 2 && st.g.getNumNeeded() == 0 && st.g.getNumLoaded() >= 5) {
        TasmanianSparseGrid R = st.g; R.clearDomainTransform(); R.clearConformalTransform();
        std::vector<double> P = R.getLoadedPoints(); int np = R.getNumLoaded(); const double *V = R.getLoadedValues(); double vmax = 1.0; for (size_t i = 0; i < (size_t)np * (size_t)outs; i++) vmax = std::max(vmax, std::fabs(V[i]));
        std::vector<double> h((size_t)d, 2.0);
        for (int j = 0; j < d; j++) { std::vector<double> c; for (int i = 0; i < np; i++) c.push_back(P[(size_t)i * (size_t)d + (size_t)j]); std::sort(c.begin(), c.end()); for (size_t i = 1; i < c.size(); i++) if (c[i] - c[i - 1] > 1e-9) h[(size_t)j] = std::min(h[(size_t)j], c[i] - c[i - 1]); }
        int mode = s.p[s.n - 2] % 3; int out = (int)(s.p[s.n - 2] / 3) % outs;
        if (mode == 0) R.removePointsByHierarchicalCoefficient(0.02, out); else if (mode == 1) R.removePointsByHierarchicalCoefficient(0.2, -1); else R.removePointsByHierarchicalCoefficient(std::max(2, np / 3), out);
        ctx.log("after removePointsByHierarchicalCoefficient(" + std::string(mode == 0 ? "tol 0.02" : mode == 1 ? "tol 0.2, all outputs" : "keep a third") + "): " + std::to_string(R.empty() ? 0 : R.getNumLoaded()) + " of " + std::to_string(np) + " points left");
        if (!R.empty() && R.getNumLoaded() > 0 && R.getNumLoaded() < np) {
            for (int q = 0; q < 6; q++) { std::vector<double> x((size_t)d);
                for (int j = 0; j < d; j++) { int cells = (int)std::floor(2.0 / h[(size_t)j] + 0.5); int k = (int)((unsigned)(s.p[(size_t)(q * 3 + j) % s.n] * 7u + (unsigned)q * 13u) % (unsigned)std::max(1, cells)); x[(size_t)j] = -1.0 + ((double)k + 1.0 / 3.0) * h[(size_t)j]; }
                std::vector<double> J; R.differentiate(x, J);
                for (int j = 0; j < d; j++) { double e = h[(size_t)j] / 1024.0; std::vector<double> xp = x, xm = x, yp, ym; xp[(size_t)j] += e; xm[(size_t)j] -= e; R.evaluate(xp, yp); R.evaluate(xm, ym);
                    for (int k = 0; k < outs; k++) { double fd = (yp[(size_t)k] - ym[(size_t)k]) / (2 * e), dv = J[(size_t)k * (size_t)d + (size_t)j];
                        ctx.close("C05.fd-after-removal", dv, fd, vmax + std::fabs(fd), 2e-3, [&]() { return "after removing points: differentiate vs central difference of evaluate at (" + joind(x) + ") output " + std::to_string(k) + " direction " + std::to_string(j); }); } }
            }
            ctx.count("fd-after-removal", 6); ctx.label("after-removal");
        }
    }
    ctx.nontrivial = (fd_done + exact_done + chain_done > 0) && ((local && sp.order != 1) || d >= 2 || !ta.empty());
}
VF_REGISTER(C05, check_C05, "grid spec (family biased towards local polynomials: all rules, orders -1,0..5; wavelets 1,3; Global incl. non-nested, unbounded, custom; Sequence; Fourier; d<=3, 1-3 outputs) "
            "x 1-4 load/refine ops x value model x linear transform (of the spec or decoded for the twin) x 3-6 points (generic inside a break-point-free cell, or exactly at interior nodes); "
            "oracles: exact gradient of a loaded member of the reproduced space, Richardson 4-th order central differences of evaluate(), chain rule between the canonical and the transformed twin; "
            "non-trivial = at least one oracle compared AND (local order != 1 or d >= 2 or a transform is present; the transformed twin is always present)");

} // namespace vf
