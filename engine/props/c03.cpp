// C03 - interpolation is exact on the function space spanned by the grid's basis.
// Generator: as C02 (Global with every rule / custom Gauss-Legendre / exotic tables, Sequence, Fourier) plus LocalPolynomial (order != 0,
// rules localp / semi-localp / localpb, depth >= 1) and Wavelet (order 1 / 3); d <= 3, all depth types, anisotropic weights, level limits,
// linear transforms. 1-8 members of the space are loaded as separate outputs:
//   Global / Sequence : monomials of getGlobalPolynomialSpace(true) (maximal elements and arbitrary ones);
//                       clenshaw-curtis-zero: (1-t^2) t^(p-2) per direction for the indices p with all p_j >= 2 and p + (1,..,1) declared (DESIGN 2.9)
//   Fourier           : cos / sin (2 pi k.t) for modes k attached to grid points (index -> frequency as in DESIGN Appendix A)
//   LocalPolynomial / Wavelet : affine functions restricted to the directions whose level limit is not 0
// Evaluation points: interior palette points, grid nodes, points with coordinates on the domain boundary.
// Oracles at every x and for every member phi:
//   C03.evaluate      evaluate(x) == phi(x)
//   C03.weights       sum_i w_i(x) phi(x_i) == phi(x),  w = getInterpolationWeights(x)
//   C03.weights-sum   sum_i w_i(x) == 1 wherever constants belong to the space (not for clenshaw-curtis-zero)
// Tolerance |a-b| <= tau * S, S = max(sum_i |w_i(x) phi(x_i)|, sum_j |c_j H_j(x)|, |phi(x)|, max_i |phi(x_i)|).
#include "refmodel/moments.hpp"

namespace vf {
using namespace c0203;

namespace {
enum FnKind { FN_MONO = 0, FN_CC0, FN_COS, FN_SIN, FN_AFFINE };
struct Fn {
    int kind = FN_MONO; std::vector<int> p; std::vector<double> a; double b = 0;
    std::string text() const {
        std::ostringstream o;
        switch (kind) { case FN_MONO: o << "x^(" << join(p) << ")"; break; case FN_CC0: o << "prod (1-t^2) t^(p-2), p=(" << join(p) << ")"; break;
        case FN_COS: o << "cos(2pi (" << join(p) << ").t)"; break; case FN_SIN: o << "sin(2pi (" << join(p) << ").t)"; break;
        default: o << decd(b); for (size_t j = 0; j < a.size(); j++) o << " + " << decd(a[j]) << " x" << j; }
        return o.str();
    }
};
LD eval_fn(const Fn &f, const double *x, const GridSpec &sp) {
    const int d = sp.dims; const bool tr = !sp.ta.empty();
    switch (f.kind) {
    case FN_MONO: { LD r = 1; for (int j = 0; j < d; j++) r *= powl((LD)x[j], f.p[(size_t)j]); return r; }
    case FN_CC0: { LD r = 1; for (int j = 0; j < d; j++) r *= cc0_basis(to_canonical11((LD)x[j], tr, tr ? sp.ta[(size_t)j] : 0, tr ? sp.tb[(size_t)j] : 0), f.p[(size_t)j]); return r; }
    case FN_COS: case FN_SIN: { LD ph = 0; for (int j = 0; j < d; j++) ph += (LD)f.p[(size_t)j] * to_canonical01((LD)x[j], tr, tr ? sp.ta[(size_t)j] : 0, tr ? sp.tb[(size_t)j] : 0);
        return f.kind == FN_COS ? cosl(2 * PI_L * ph) : sinl(2 * PI_L * ph); }
    default: { LD r = (LD)f.b; for (int j = 0; j < d; j++) r += (LD)f.a[(size_t)j] * (LD)x[j]; return r; }
    }
}
}

void check_C03(Src &s, Ctx &ctx) {
    static const int fmap[] = {F_GLOBAL, F_SEQ, F_FOURIER, F_LOCALP, F_WAVE};
    int fam = fmap[s.weighted({6, 3, 3, 3, 3})];
    SpecOpts so; so.fam_mask = 1u << fam; so.max_dims = 3; so.min_outs = 1; so.max_outs = 8; so.conformal = false; so.local_order0 = false;
    so.cap = cfg().tier ? 400 : 250; so.min_depth = (fam == F_LOCALP) ? 1 : 0;
    GridState st; st.cap = so.cap; st.ctx = &ctx;
    st.spec = decode_spec(s, so);
    if (fam == F_LOCALP && st.spec.rule == rule_localp0) st.spec.rule = rule_localp;   // the statement covers boundary-including rules only
    int exotic = -1;
    if (fam == F_GLOBAL && !st.spec.custom && s.chance(1, 12)) { st.spec.custom = true; st.spec.rule = rule_customtabulated; st.spec.alpha = st.spec.beta = 0; }   // more weight on custom tables
    if (st.spec.custom && s.chance(1, 2)) { exotic = s.pick(NUM_EXOTIC); st.spec.ta.clear(); st.spec.tb.clear(); }
    if (st.spec.ta.empty() && exotic < 0 && s.chance(1, 6))
        for (int j = 0; j < st.spec.dims; j++) { auto ab = (fam == F_GLOBAL && rule_unbounded(st.spec.rule)) ? s.of(UNBOUNDED_AB) : s.of(BOUNDED_AB); st.spec.ta.push_back(ab.first); st.spec.tb.push_back(ab.second); }
    make_grid2(st.g, st.spec, exotic, so.cap);
    if (fam == F_LOCALP && st.spec.depth < 1) throw Discard("local polynomial grid of depth 0");   // (cannot happen: depth 1 grids have at most 7 points)
    const GridSpec &sp = st.spec; auto &g = st.g;
    ctx.log(sp.text() + (exotic >= 0 ? std::string(" exotic=") + EXOTICS[exotic].name : std::string("")));
    // ---- optional history: values of the smooth value model, one update / refinement step, proposal merged into the grid: a general lower set (Global,
    // Sequence, Fourier) or an adaptive hierarchy (LocalPolynomial, Wavelet); the members of the space then overwrite the values of all points
    bool refined = false;
    if (exotic < 0 && s.chance(1, 4)) {
        st.vm.decode(s); ctx.log(st.vm.text());
        Op ld; ld.kind = OP_LOAD; apply_op(st, ld);
        static const std::vector<int> kinds = {OP_UPDATE, OP_REF_ANISO, OP_REF_SURP};
        Op op = decode_op(s, sp, kinds);
        if (fam == F_LOCALP || fam == F_WAVE) { op.kind = OP_REF_SURP; op.variant |= 1; }
        else if (op.kind == OP_REF_SURP && !st.surplus_capable()) op.kind = st.aniso_capable() ? OP_REF_ANISO : OP_UPDATE;
        else if (op.kind == OP_REF_ANISO && !st.aniso_capable()) op.kind = OP_UPDATE;
        if (op.kind == OP_REF_ANISO && is_tensor_type(op.type)) op.type = type_level;
        if (apply_op(st, op)) {
            if (g.getNumNeeded() > 0 && g.getNumLoaded() + g.getNumNeeded() <= 2 * so.cap) { g.mergeRefinement(); st.note("Merge"); refined = true; }
            else if (g.getNumNeeded() > 0) { g.clearRefinement(); st.note("ClearRef(cap)"); }
        }
    }
    const int d = sp.dims, m = sp.outs, N = g.getNumPoints(); const bool tr = !sp.ta.empty();
    const bool zero_b = (fam == F_GLOBAL && !sp.custom && sp.rule == rule_clenshawcurtis0);
    const bool unb = fam == F_GLOBAL && !sp.custom && rule_unbounded(sp.rule);
    const bool constants = !zero_b;
    std::vector<double> pts = g.getPoints();

    // ---- members of the space
    std::vector<Fn> fns; int max_total = 0;
    if (fam == F_GLOBAL || fam == F_SEQ) {
        Space sp_i; sp_i.build(g.getGlobalPolynomialSpace(true), d);
        VF_REQUIRE("C03.space-shape", !sp_i.idx.empty() && sp_i.have.size() == sp_i.idx.size(), "getGlobalPolynomialSpace(true) is empty or lists a multi-index twice");
        std::vector<std::vector<int>> cand;
        if (!zero_b) cand = sp_i.idx;
        else {   // DESIGN 2.9: the documented basis on n nodes spans (1-t^2) P_(n-1), one degree less than declared; asserted for p with p + 1 declared
            for (auto &p : sp_i.idx) { bool ok = true; std::vector<int> q = p; for (auto &v : q) { if (v < 2) ok = false; v++; } if (ok && sp_i.contains(q)) cand.push_back(p); }
            ctx.count("cc0-top-declared-degree-not-asserted");
        }
        if (cand.empty()) { ctx.label("skip:no-member"); return; }
        std::set<std::vector<int>> cs(cand.begin(), cand.end());
        std::vector<size_t> maxi; for (size_t q = 0; q < cand.size(); q++) { bool mx = true; std::vector<int> r = cand[q]; for (int j = 0; j < d && mx; j++) { r[(size_t)j]++; if (cs.count(r)) mx = false; r[(size_t)j]--; } if (mx) maxi.push_back(q); }
        for (int k = 0; k < m; k++) {
            size_t q = (k % 2 == 0) ? maxi[(size_t)s.pick((int)std::min<size_t>(maxi.size(), 250))] : (size_t)s.u16() % cand.size();
            Fn f; f.kind = zero_b ? FN_CC0 : FN_MONO; f.p = cand[q]; fns.push_back(f); max_total = std::max(max_total, sp_i.total(f.p));
        }
        ctx.log("space: " + std::to_string(sp_i.idx.size()) + " multi-indices, " + std::to_string(maxi.size()) + " maximal");
    } else if (fam == F_FOURIER) {
        const int *ix = g.getPointsIndexes();
        int point = 0;
        for (int k = 0; k < m; k++) {
            if (k % 2 == 0) point = N - 1 - (int)(s.u16() % (unsigned)N);   // exhausted input -> the last (finest) mode
            Fn f; f.kind = (k % 2 == 0) ? FN_COS : FN_SIN; int tot = 0; for (int j = 0; j < d; j++) { f.p.push_back(fourier_freq(ix[(size_t)point * (size_t)d + (size_t)j])); tot += std::abs(f.p.back()); }
            fns.push_back(f); max_total = std::max(max_total, tot);
        }
    } else {
        static const std::vector<double> pal = {1.0, -0.5, 2.0, 0.0, 0.25, -3.0};
        for (int k = 0; k < m; k++) {
            Fn f; f.kind = FN_AFFINE; f.b = (k == 0) ? 0.5 : s.of(pal);
            for (int j = 0; j < d; j++) { bool allowed = sp.limits.empty() || sp.limits[(size_t)j] != 0; double c = (k == 0) ? 1.0 : s.of(pal); f.a.push_back(allowed ? c : 0.0); }
            fns.push_back(f);
        }
        max_total = 1;
    }
    for (int k = 0; k < m; k++) ctx.log("  f" + std::to_string(k) + " = " + fns[(size_t)k].text());

    // ---- load the nodal values
    std::vector<double> np = g.getPoints(); VF_REQUIRE("C03.sizes", (int)np.size() == N * d && (g.getNumLoaded() == 0 ? g.getNumNeeded() == N : g.getNumNeeded() == 0), "getPoints has " << np.size() << " numbers for " << N << " points (loaded " << g.getNumLoaded() << ", needed " << g.getNumNeeded() << ")");
    std::vector<double> vals((size_t)N * (size_t)m); std::vector<LD> vmax((size_t)m, 0);
    for (int i = 0; i < N; i++) for (int k = 0; k < m; k++) { double v = (double)eval_fn(fns[(size_t)k], &np[(size_t)i * (size_t)d], sp); vals[(size_t)i * (size_t)m + (size_t)k] = v; vmax[(size_t)k] = std::max(vmax[(size_t)k], fabsl((LD)v)); }
    // the nodal values are supplied either in one batch or, for a quarter of the fresh nested grids, through dynamic construction in a
    // generated single-sample / small-batch order (loadConstructedPoints is the other documented way of supplying model values)
    bool via_construction = g.getNumLoaded() == 0 && sp.nested() && sp.conformal.empty() && N <= 150 && s.chance(1, 4);
    if (via_construction) {
        std::vector<size_t> ord((size_t)N); for (size_t i = 0; i < (size_t)N; i++) ord[i] = i;
        int omode = s.pick(4);   // 0 shuffled; 1 / 2: reference order with the points on the lower / upper bound of some direction delivered last; 3 reversed
        if (omode == 0) { for (size_t i = (size_t)N; i > 1; i--) std::swap(ord[i - 1], ord[((size_t)s.byte() * 251 + i * 7) % i]); }
        else if (omode == 3) std::reverse(ord.begin(), ord.end());
        else { std::vector<double> ext((size_t)d); for (int j = 0; j < d; j++) { ext[(size_t)j] = np[(size_t)j]; for (int i = 0; i < N; i++) ext[(size_t)j] = (omode == 1) ? std::min(ext[(size_t)j], np[(size_t)i * (size_t)d + (size_t)j]) : std::max(ext[(size_t)j], np[(size_t)i * (size_t)d + (size_t)j]); }
            std::stable_partition(ord.begin(), ord.end(), [&](size_t i) { for (int j = 0; j < d; j++) if (np[i * (size_t)d + (size_t)j] == ext[(size_t)j]) return false; return true; }); }
        g.beginConstruction(); size_t pos = 0;
        while (pos < (size_t)N) { size_t bs = std::min<size_t>((size_t)N - pos, 1 + (size_t)(s.byte() % 3 == 0 ? s.pick(4) : 0)); std::vector<double> x, y;
            for (size_t q = 0; q < bs; q++) { size_t i = ord[pos + q]; x.insert(x.end(), np.begin() + (long)(i * (size_t)d), np.begin() + (long)((i + 1) * (size_t)d)); y.insert(y.end(), vals.begin() + (long)(i * (size_t)m), vals.begin() + (long)((i + 1) * (size_t)m)); }
            if (bs == 1) g.loadConstructedPoints(x.data(), 1, y.data()); else g.loadConstructedPoints(x, y); pos += bs; }
        g.finishConstruction(); ctx.log("values supplied through dynamic construction in a shuffled order"); ctx.label("load:construction");
        if (g.getNumLoaded() != N) throw Discard("construction did not load every point (C09 territory)");
    } else g.loadNeededValues(vals);
    pts = g.getPoints();
    for (size_t i = 0; i < pts.size(); i++) VF_REQUIRE("C03.point-order", std::memcmp(&pts[i], &np[i], sizeof(double)) == 0, "getPoints after loading differs from getPoints before it at entry " << i);
    const double *coef = g.getHierarchicalCoefficients(); const bool fourier = fam == F_FOURIER;

    // ---- evaluation points
    int nx = 3 + s.pick(4), n_nonnode = 0, n_node = 0, n_bnd = 0, n_near = 0; long skipped_wave = 0;
    const double tau = (fam == F_WAVE) ? 1e-8 : 1e-9;
    double r_prev = 0;
    std::vector<double> y((size_t)m), w, H;
    for (int r = 0; r < nx; r++) {
        int mode = s.weighted({3, 2, 2, 1});
        std::vector<double> x = domain_point(s, st);
        bool near_node = false;
        if (mode == 3) {   // a point very close to (but not at) a node: node + sgn * delta * width in one direction, kept inside the domain
            int k = (int)(s.u16() % (unsigned)N), j = s.pick(d); static const double deltas[] = {1e-8, 1e-6, 1e-10, 1e-13}; double dl = deltas[s.pick(4)], sgn = s.pick(2) ? -1.0 : 1.0;
            for (int q = 0; q < d; q++) x[(size_t)q] = pts[(size_t)k * (size_t)d + (size_t)q];
            double lo = fourier ? 0.0 : -1.0, hi = 1.0; if (tr && !unb) { lo = sp.ta[(size_t)j]; hi = sp.tb[(size_t)j]; }
            double width = unb ? 1.0 : hi - lo, c = x[(size_t)j] + sgn * dl * width;
            if (!unb && (c < lo || c > hi)) c = x[(size_t)j] - sgn * dl * width;
            if (unb && rule_laguerre(sp.rule) && c < (tr ? sp.ta[(size_t)j] : 0.0)) c = x[(size_t)j] + dl * width;
            x[(size_t)j] = c; near_node = true;
        } else if (mode == 1) { int k = (int)(s.u16() % (unsigned)N); for (int j = 0; j < d; j++) x[(size_t)j] = pts[(size_t)k * (size_t)d + (size_t)j]; }
        else if (mode == 2 && !unb) {
            for (int j = 0; j < d; j++) { int c = (j == 0) ? s.pick(2) : s.pick(3); if (c == 2) continue;
                double lo = fourier ? 0.0 : -1.0, hi = 1.0; if (tr) { lo = sp.ta[(size_t)j]; hi = sp.tb[(size_t)j]; }
                x[(size_t)j] = c ? hi : lo; }
        }
        // known finding (*-wavelet-transformed-boundary, recorded for C01/C04): a Wavelet grid with a linear transform cuts its basis to 0 at a boundary
        // point whose library-style inverse image rounds outside [-1,1]; the shape is excluded by construction (witness replays run with --no-exclude)
        if (fam == F_WAVE && tr && !cfg().no_exclude && lib_canonical_outside(g, x.data())) { skipped_wave++; ctx.excluded.push_back("C03-wavelet-transformed-boundary"); continue; }
        bool is_node = false; for (int i = 0; i < N && !is_node; i++) { bool eq = true; for (int j = 0; j < d; j++) if (pts[(size_t)i * (size_t)d + (size_t)j] != x[(size_t)j]) eq = false; is_node = eq; }
        bool on_bnd = false; if (!unb) for (int j = 0; j < d; j++) { double lo = fourier ? 0.0 : -1.0, hi = 1.0; if (tr) { lo = sp.ta[(size_t)j]; hi = sp.tb[(size_t)j]; } if (x[(size_t)j] == lo || x[(size_t)j] == hi) on_bnd = true; }
        (is_node ? n_node : n_nonnode)++; if (on_bnd) n_bnd++; if (near_node && !is_node) n_near++;
        ctx.log("  x = (" + joind(x) + ")" + (is_node ? " node" : (near_node ? " near-node" : "")) + (on_bnd ? " boundary" : ""));
        std::fill(y.begin(), y.end(), 1e10); g.evaluate(x, y);
        g.getInterpolationWeights(x, w); g.evaluateHierarchicalFunctions(x, H);
        VF_REQUIRE("C03.sizes", (int)w.size() == N && (int)y.size() == m && H.size() == (size_t)N * (fourier ? 2u : 1u), "evaluate / getInterpolationWeights / evaluateHierarchicalFunctions returned " << y.size() << " / " << w.size() << " / " << H.size() << " numbers");
        // Fourier interpolation weights come from a closed form that treats an x within ~2e-7 of a node as the node itself (guard against 0/0); the
        // Dirichlet kernel is flat there, so the result is off by O((N delta)^2) <= ~1e-9: near-node weights of Fourier grids get a looser tolerance
        const double tau_w = (fourier && near_node) ? 1e-6 : tau;
        LD sw = 0, swabs = 0; for (double v : w) { sw += (LD)v; swabs += fabsl((LD)v); }
        for (int k = 0; k < m; k++) {
            LD expect = eval_fn(fns[(size_t)k], x.data(), sp), sum = 0, sc = 0, sh = 0;
            for (int i = 0; i < N; i++) { LD t = (LD)w[(size_t)i] * (LD)vals[(size_t)i * (size_t)m + (size_t)k]; sum += t; sc += fabsl(t); }
            if (!fourier) for (int j = 0; j < N; j++) sh += fabsl((LD)coef[(size_t)j * (size_t)m + (size_t)k] * (LD)H[(size_t)j]);
            else for (int j = 0; j < N; j++) sh += fabsl((LD)coef[(size_t)j * (size_t)m + (size_t)k] * (LD)H[2 * (size_t)j]) + fabsl((LD)coef[((size_t)N + (size_t)j) * (size_t)m + (size_t)k] * (LD)H[2 * (size_t)j + 1]);
            LD S = std::max(std::max(sc, sh), std::max(fabsl(expect), vmax[(size_t)k]));
            auto where = [&](const char *what) { return [&, what]() { std::ostringstream o; o << what << " for f" << k << " = " << fns[(size_t)k].text() << " at x = (" << joind(x) << ") [" << sp.text() << ", " << N << " points]"; return o.str(); }; };
            ctx.close("C03.evaluate", y[(size_t)k], (double)expect, (double)S, tau, where("evaluate(x) vs phi(x)"));
            ctx.close("C03.weights", (double)sum, (double)expect, (double)S, tau_w, where("sum_i w_i(x) phi(x_i) vs phi(x)"));
        }
        ctx.count("evaluations", m); ctx.count("points");
        if (constants) { ctx.close("C03.weights-sum", (double)sw, 1.0, (double)std::max(swabs, (LD)1), tau_w, [&]() { return "sum of getInterpolationWeights(x) at x = (" + joind(x) + ") [" + sp.text() + "]"; }); ctx.count("weights-sum"); }
        if (ctx.max_ratio > r_prev && ctx.max_ratio > 1e-4) ctx.label(std::string(ctx.max_ratio > 1e-3 ? "ratio>1e-3:" : "ratio>1e-4:") + (fam == F_GLOBAL ? (sp.custom ? (exotic >= 0 ? std::string("exotic") : std::string("custom-gl")) : rule_name(sp.rule)) : std::string(fam_name(fam))));
        r_prev = std::max(r_prev, ctx.max_ratio);
    }
    if (skipped_wave) ctx.count("excluded-wavelet-boundary-points", skipped_wave);

    // ---- classes
    ctx.label(std::string("fam:") + fam_name(fam));
    if (fam == F_GLOBAL) ctx.label("rule:" + (sp.custom ? (exotic >= 0 ? std::string("exotic") : std::string("custom-gl")) : rule_name(sp.rule)));
    if (fam == F_SEQ) ctx.label("seq:" + rule_name(sp.rule));
    if (fam == F_LOCALP) { ctx.label("lp:" + rule_name(sp.rule)); ctx.label("lp:order" + std::to_string(sp.order)); }
    if (fam == F_WAVE) ctx.label("wave:o" + std::to_string(sp.order));
    if (fam == F_GLOBAL && !sp.nested()) ctx.label("non-nested");
    if (fam != F_LOCALP && fam != F_WAVE) ctx.label(std::string("type:") + type_name(sp.type));
    ctx.label("d:" + std::to_string(d));
    if (tr) ctx.label("transform"); if (!sp.limits.empty()) ctx.label("limits"); if (!sp.aw.empty()) ctx.label("aniso");
    if (zero_b) ctx.label("zero-boundary"); if (refined) ctx.label("hist:refined");
    if (n_nonnode) ctx.label("x:non-node"); if (n_node) ctx.label("x:node"); if (n_bnd) ctx.label("x:boundary"); if (n_near) ctx.label("x:near-node");
    bool has_type = fam == F_GLOBAL || fam == F_SEQ || fam == F_FOURIER;
    bool nondefault = d >= 2 || (has_type && sp.type != type_level) || !sp.aw.empty() || !sp.limits.empty() || refined;
    ctx.nontrivial = nondefault && n_nonnode > 0 && max_total >= 1;
}
VF_REGISTER(C03, check_C03, "grid spec (Global: all rules, custom Gauss-Legendre and exotic tables; Sequence; Fourier; LocalPolynomial order != 0 with localp / semi-localp / localpb and depth >= 1; Wavelet; d<=3; "
            "12 depth types; anisotropic weights; level limits; linear transforms) x 1-8 members of the declared space loaded as outputs x 3-6 evaluation points (interior, nodes, domain boundary); "
            "non-trivial = (d >= 2 or depth type != level or anisotropic weights or level limits present) AND at least one evaluation point is not a grid node AND a non-constant member was loaded; "
            "distinct = distinct normalised case text");

} // namespace vf
