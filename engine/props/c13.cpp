// C13 - results do not depend on the number of OpenMP threads.
// The case bytes are executed by two separately built runner programs (serial build, OpenMP build; engine/c13/c13runner.cpp) on larger
// grids; the OpenMP runner is run under several OMP_NUM_THREADS. Transcripts must agree: integer / ordering data identical, floating
// point data within rounding of the serial run.
#include "common.hpp"
#include <cstdlib>
#include <unistd.h>
#include <sys/wait.h>
#include <fstream>

namespace vf {
namespace {
std::string run_runner(const std::string &bin, const std::string &casefile, int threads, int &status) {
    std::string out = cfg().workdir + "/c13.out";
    pid_t pid = fork();
    if (pid == 0) {
        if (threads > 0) setenv("OMP_NUM_THREADS", std::to_string(threads).c_str(), 1);
        setenv("OMP_DYNAMIC", "false", 1); setenv("OMP_WAIT_POLICY", "passive", 1); setenv("GOMP_SPINCOUNT", "0", 1);   // many runners share the machine: no busy waiting
        FILE *f = freopen(out.c_str(), "w", stdout); (void)f; FILE *e = freopen((cfg().workdir + "/c13.err").c_str(), "w", stderr); (void)e;
        execl(bin.c_str(), bin.c_str(), casefile.c_str(), (char *)nullptr); _exit(127);
    }
    int st = 0; waitpid(pid, &st, 0); status = st;
    std::ifstream f(out); std::stringstream ss; ss << f.rdbuf(); return ss.str();
}
std::vector<std::string> lines_of(const std::string &s) { std::vector<std::string> v; std::stringstream ss(s); std::string l; while (std::getline(ss, l)) v.push_back(l); return v; }
}

void check_C13(Src &s, Ctx &ctx) {
    const char *ser = getenv("VERIF_C13_SERIAL"), *omp = getenv("VERIF_C13_OMP");
    if (!ser || !omp) throw Violation("C13.setup", "VERIF_C13_SERIAL / VERIF_C13_OMP are not set (run through run_check.py)");
    // the case is the remaining byte string itself; thread counts come first
    static const int palette[] = {2, 3, 7, 16, 5, 48};
    int t1 = palette[s.pick(6)], t2 = palette[s.pick(6)]; if (t2 == t1) t2 = (t1 == 16) ? 3 : 16;
    std::string casefile = cfg().workdir + "/c13.case";
    { std::ofstream f(casefile, std::ios::binary); f.write((const char *)s.p + s.i, (std::streamsize)(s.n - s.i)); }
    s.i = s.n;
    int st0 = 0; std::string ref = run_runner(ser, casefile, 0, st0);
    VF_REQUIRE("C13.serial-runner-crashed", WIFEXITED(st0) && WEXITSTATUS(st0) == 0, "the serial runner terminated abnormally (status " << st0 << ")");
    auto rl = lines_of(ref);
    if (rl.empty() || rl.back() == "DISCARD") throw Discard("runner discarded the case");
    ctx.log(rl[0]); for (auto &l : rl) if (l.rfind("S after", 0) == 0) ctx.log(l);
    VF_REQUIRE("C13.serial-runner-exception", rl.back() == "END", "serial runner: " << rl.back());
    int npoints = 0; { size_t p = rl[0].find("points="); if (p != std::string::npos) npoints = atoi(rl[0].c_str() + p + 7); }
    for (int threads : {1, t1, t2}) {
        int st1 = 0; std::string got = run_runner(omp, casefile, threads, st1);
        VF_REQUIRE("C13.openmp-runner-crashed", WIFEXITED(st1) && WEXITSTATUS(st1) == 0, "the OpenMP runner terminated abnormally with OMP_NUM_THREADS=" << threads << " (status " << st1 << ")");
        auto gl = lines_of(got);
        VF_REQUIRE("C13.transcript-length", gl.size() == rl.size(), "OMP_NUM_THREADS=" << threads << ": transcript has " << gl.size() << " lines, the serial one " << rl.size() << (gl.empty() ? "" : " (last: " + gl.back() + ")"));
        for (size_t i = 0; i < rl.size(); i++) {
            const std::string &a = rl[i], &b = gl[i];
            if (a == b) continue;
            if (a.rfind("SPEC", 0) == 0) { VF_REQUIRE("C13.spec", a.substr(0, a.find(" openmp=")) == b.substr(0, b.find(" openmp=")), "different grids were built: " << a << " vs " << b); continue; }
            if (a[0] == 'F' && b[0] == 'F') {   // floating point line: same header (key, n), values within rounding
                std::stringstream sa(a), sb(b); std::string ta, tb; std::vector<double> va, vb; bool head_ok = true; int tok = 0;
                while (sa >> ta && sb >> tb) { if (tok < 3) { if (ta != tb) head_ok = false; } else { auto num = [](const std::string &t) { size_t e = t.find('='); return strtod(t.c_str() + (e == std::string::npos ? 0 : e + 1), nullptr); }; if (ta != ":") { va.push_back(num(ta)); vb.push_back(num(tb)); } } tok++; }
                VF_REQUIRE("C13.float-line-shape", head_ok && va.size() == vb.size(), "OMP_NUM_THREADS=" << threads << ": " << a.substr(0, 60) << " vs " << b.substr(0, 60));
                double sc = 1.0; for (double v : va) if (std::isfinite(v)) sc = std::max(sc, std::fabs(v));
                for (size_t k = 0; k < va.size(); k++) ctx.close("C13.float-differs", vb[k], va[k], sc, 1e-10, [&]() { return "OMP_NUM_THREADS=" + std::to_string(threads) + ", " + a.substr(0, a.find(" n=")) + " entry " + std::to_string(k) + " (line " + std::to_string(i) + ", after: " + [&]() { for (size_t q = i; q-- > 0;) if (rl[q][0] == 'S') return rl[q]; return std::string("?"); }() + ")"; });
                continue;
            }
            throw Violation("C13.structure-differs", "OMP_NUM_THREADS=" + std::to_string(threads) + ": line " + std::to_string(i) + " differs from the serial build: [" + a.substr(0, 120) + "] vs [" + b.substr(0, 120) + "]");
        }
        ctx.count("openmp-runs");
    }
    ctx.label(npoints >= 1000 ? "points>=1000" : (npoints >= 300 ? "points>=300" : "points<300"));
    { size_t p = rl[0].find(' '); size_t q = rl[0].find(' ', p + 1); ctx.label("fam:" + rl[0].substr(p + 1, q - p - 1)); }
    ctx.nontrivial = npoints >= 300 && rl.size() > 12;
}
VF_REGISTER(C13, check_C13, "operation history (load / surplus and anisotropic refinement / update / construction / merge / coefficient overwrite) on larger grids (up to 3000 initial points) executed by a serial-build runner and an OpenMP-build runner "
            "under OMP_NUM_THREADS in {1, two of 2/3/5/7/16/48}; non-trivial = the initial grid has at least 300 points and the history has several steps");
} // namespace vf
