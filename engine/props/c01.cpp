// C01 - the interpolant reproduces the loaded model values at every loaded point.
// Generator: spec (nested rules only; all families) x history of load / reload / refine / update / merge / construction steps.
// Oracle: after every step that changes loaded data, evaluate / evaluateBatch / evaluateFast at every loaded point equal the
// value supplied for that coordinate (reference dictionary). Local polynomial grids: asserted only when the coordinate model
// confirms that every loaded point has all hierarchical parents loaded (the case still runs under the sanitizers otherwise).
#include "history.hpp"

namespace vf {

// Class "global:deep-1d" (one case in forty, chosen from the last byte, consumes nothing): a one-dimensional Global grid of an exponentially growing nested rule at depth 7-10,
// i.e. 255-2047 nodes in one direction. Every other generator keeps Global grids below 1000 nodes per direction (GridState::enforce_cap), this class is where the range beyond is decided.
static bool deep_1d_class(Src &s, Ctx &ctx) {
    if (!(s.n >= 3 && (s.p[s.n - 1] % 40) == 17)) return false;
    static const TypeOneDRule rules[] = {rule_clenshawcurtis, rule_clenshawcurtis0, rule_fejer2};
    TypeOneDRule rule = rules[s.p[0] % 3]; int depth = 7 + (s.p[1] % 4);
    auto nodes = [&](int l) { return rule == rule_clenshawcurtis ? (1 << l) + 1 : (2 << l) - 1; };
    // known finding C01-global-1d-lagrange-overflow: with 1023 or more nodes in one direction evaluate() returns NaN
    while (nodes(depth) >= 1000 && ctx.excl("C01-global-1d-lagrange-overflow")) depth--;
    TasmanianSparseGrid g; g.makeGlobalGrid(1, 1, depth, type_level, rule);
    ValueModel vm; auto pts = g.getNeededPoints(); int n = g.getNumNeeded(); std::vector<double> v((size_t)n);
    for (int i = 0; i < n; i++) v[(size_t)i] = vm(&pts[(size_t)i], 1, 0, 0);
    g.loadNeededValues(v);
    { std::ostringstream o; o << "global d=1 out=1 depth=" << depth << " type=level rule=" << rule_name(rule) << " (class deep-1d, " << n << " nodes)"; ctx.log(o.str()); }
    std::vector<double> y; g.evaluateBatch(pts, y);
    for (int i = 0; i < n; i++) ctx.close("C01.nodal", y[(size_t)i], v[(size_t)i], std::max(1.0, std::fabs(v[(size_t)i])), 1e-9, [&]() { return "deep 1-D global grid: evaluateBatch at loaded point #" + std::to_string(i) + " (" + decd(pts[(size_t)i]) + ")"; });
    std::vector<double> y1; g.evaluate(std::vector<double>{pts[(size_t)(n / 3)]}, y1);
    ctx.close("C01.nodal", y1[0], v[(size_t)(n / 3)], std::max(1.0, std::fabs(v[(size_t)(n / 3)])), 1e-9, [&]() { return std::string("deep 1-D global grid: evaluate at a loaded point"); });
    ctx.count("nodal-values", n + 1); ctx.label("fam:global"); ctx.label("global:deep-1d"); ctx.nontrivial = true;
    return true;
}

// Class "adaptive-gaps" (one case in sixteen, chosen from the last byte): the standard adaptive loop on a 2-3 dimensional local polynomial grid (single-parent rules) with a
// strongly anisotropic model, 3-6 rounds of classic / direction-selective surplus refinement with a tolerance that flags only part of the points: the usual way hierarchies with
// gaps arise. After every load the nodal reproduction is asserted whenever the coordinate model says the ancestor walk is closed (dag_closed).
static bool adaptive_gaps_class(Src &s, Ctx &ctx) {
    if (!(s.n >= 4 && (s.p[s.n - 1] % 16) == 9)) return false;
    GridState st; st.ctx = &ctx; st.cap = cfg().tier ? 500 : 350;
    GridSpec &sp = st.spec; sp.family = F_LOCALP; sp.dims = 2 + s.pick(2); sp.outs = 1 + s.pick(2); sp.rule = s.pick(3) == 2 ? rule_localp0 : rule_localp; sp.order = 1 + s.pick(3); sp.depth = 1 + s.pick(2);
    st.vm.decode(s);
    static const double strong[] = {2.0, 1.3, 0.9}, weak[] = {0.15, 0.3, 0.0};
    int major = s.pick(sp.dims); for (int j = 0; j < 4; j++) st.vm.w[j] = (j == major) ? strong[s.pick(3)] : weak[s.pick(3)];   // (the model uses w[(j + k) % 4] for direction j of output k)
    make_grid(st.g, sp, st.cap); ctx.log(sp.text() + " (class adaptive-gaps)"); ctx.log(st.vm.text());
    Op ld; ld.kind = OP_LOAD; apply_op(st, ld);
    int rounds = 3 + s.pick(4); long asserted = 0; int with_gaps = 0, skipped = 0;
    static const double tols[] = {1e-2, 3e-3, 1e-3, 3e-2, 1e-4};
    Op rf; rf.kind = OP_REF_SURP; rf.tol = tols[s.pick(5)]; rf.crit = s.pick(3) == 0 ? refine_direction_selective : refine_classic; rf.output = s.pick(2) ? -1 : 0; rf.variant = 1;
    for (int r = 0; r < rounds && st.g.getNumLoaded() < st.cap; r++) {
        if (!apply_op(st, rf) || st.g.getNumNeeded() == 0) break;
        if (!apply_op(st, ld)) break;
        bool strict = parent_complete(st), closed = strict || dag_closed(st);
        if (!strict && closed) with_gaps++; if (!closed) skipped++;
        long n = check_nodal(ctx, "C01.nodal", st, 1e-9, closed); asserted += n;
    }
    ctx.count("nodal-values", asserted); ctx.label("fam:localp"); ctx.label("class:adaptive-gaps"); ctx.label("hist:refined");
    if (with_gaps) ctx.label("lp:gaps-asserted"); if (skipped) ctx.label("lp:incomplete-skipped");
    ctx.nontrivial = with_gaps > 0;
    return true;
}

void check_C01(Src &s, Ctx &ctx) {
    if (deep_1d_class(s, ctx)) return;
    if (adaptive_gaps_class(s, ctx)) return;
    SpecOpts so; so.nonnested = false; so.custom = false; so.min_outs = 1; so.max_outs = 3; so.cap = cfg().tier ? 500 : 350;
    GridState st; st.cap = so.cap; st.ctx = &ctx;
    st.spec = decode_spec(s, so); st.vm.decode(s);
    if (s.n >= 3 && (s.p[s.n - 1] % 8) == 5) { st.vm.degenerate = 1 + (s.p[s.n - 2] % 3); ctx.label("model:degenerate"); }   // one case in eight: constant / affine / one-active-direction model (coefficients vanish exactly)
    make_grid(st.g, st.spec, so.cap);
    ctx.log(st.spec.text()); ctx.log(st.vm.text());
    static const std::vector<int> kinds = {OP_LOAD, OP_LOAD, OP_LOAD, OP_REF_SURP, OP_REF_SURP, OP_REF_ANISO, OP_RELOAD, OP_UPDATE, OP_CLEAR_REF, OP_MERGE,
                                           OP_BEGIN_CONSTR, OP_BEGIN_CONSTR, OP_BEGIN_CONSTR, OP_CANDIDATES, OP_LOAD_CONSTR, OP_LOAD_CONSTR, OP_LOAD_CONSTR, OP_FINISH_CONSTR};
    int nops = 1 + s.pick(10);
    bool lp = st.spec.family == F_LOCALP;
    long asserted = 0, skipped_incomplete = 0, gaps_asserted = 0; int checks_after_refine = 0;
    run_history(s, st, kinds, nops, !s.chance(1, 6), [&](const Op &op) {
        if (!(op.kind == OP_LOAD || op.kind == OP_RELOAD || op.kind == OP_LOAD_CONSTR || op.kind == OP_FINISH_CONSTR || op.kind == OP_MERGE)) return;
        if (!st.dict_valid || st.g.getNumLoaded() == 0) return;
        bool strict = !lp || parent_complete(st);
        bool complete = strict || dag_closed(st);   // gaps are fine as long as the ancestor walk of the library reaches every ancestor (see history.hpp)
        if (lp && !strict && complete) gaps_asserted++;
        if (!complete) { skipped_incomplete++; ctx.log("  (loaded set not parent-complete: equality not asserted)"); }
        double tau = (st.spec.family == F_WAVE) ? 1e-8 : 1e-9;
        long n = check_nodal(ctx, "C01.nodal", st, tau, complete);
        asserted += n; ctx.count("nodal-values", n);
        if (n > 0 && (st.n_refine > 0 || st.n_constr_loads > 0)) checks_after_refine++;
    });
    ctx.label(std::string("fam:") + fam_name(st.spec.family));
    if (lp) { ctx.label("lp:" + rule_name(st.spec.rule) + "/o" + std::to_string(st.spec.order)); ctx.label(st.spec.dims >= 3 ? "lp:d>=3" : "lp:d<=2");
        if (skipped_incomplete) ctx.label("lp:incomplete-skipped"); if (gaps_asserted) ctx.label("lp:gaps-asserted"); }
    if (st.spec.family == F_WAVE) ctx.label("wave:o" + std::to_string(st.spec.order));
    if (st.n_constr_loads > 0) ctx.label("hist:construction"); if (st.n_refine > 0) ctx.label("hist:refined");
    if (!st.spec.conformal.empty()) ctx.label("conformal"); if (!st.spec.ta.empty()) ctx.label("transform");
    ctx.nontrivial = checks_after_refine > 0;
}
VF_REGISTER(C01, check_C01, "grid spec (nested rules, all five families, transforms, limits, anisotropy) x history of 1-10 load/reload/refine/update/merge/construction ops x value model; "
            "non-trivial = nodal reproduction was asserted after at least one refinement or construction step following the first load; distinct = distinct normalised case text");

} // namespace vf
