// C17 - constructSurrogate checkpoints let completed work survive a crash at any instant.
// Fault enumeration driven by generation: configuration (family, budget, batch, sequential/parallel) x kill index k over the intercepted
// open / write / close operations on the two checkpoint files (k ranges over all operations of a fault-free dry run) x torn-write fraction.
// The run is executed by a separate driver process (plain build) under the LD_PRELOAD injector shim/fsfault.so, then restarted without faults.
// Oracles: the restart terminates normally; the final grid carries the model value at every loaded point and reproduces it; samples recomputed
// by the restart were obtained after the last checkpoint whose rewrite of the main file had completed before the kill (sequential mode);
// total samples <= budget; after the first completed checkpoint both documented files exist.
#include "history.hpp"
#include "c17/c17config.hpp"
#include <unistd.h>
#include <sys/wait.h>
#include <sys/stat.h>

namespace vf {
namespace {
int run_driver(const std::string &drv, const std::string &shim, const std::string &casef, const std::string &ck, const std::string &log, const std::string &fin, long kill_at, int tn, int td) {
    pid_t pid = fork();
    if (pid == 0) {
        setenv("LD_PRELOAD", shim.c_str(), 1); setenv("FSFAULT_MATCH", "c17ckpt", 1); setenv("FSFAULT_LOG", log.c_str(), 1);
        if (kill_at > 0) { setenv("FSFAULT_KILL_AT", std::to_string(kill_at).c_str(), 1); setenv("FSFAULT_TORN_NUM", std::to_string(tn).c_str(), 1); setenv("FSFAULT_TORN_DEN", std::to_string(td).c_str(), 1); } else unsetenv("FSFAULT_KILL_AT");
        unsetenv("ASAN_OPTIONS"); unsetenv("UBSAN_OPTIONS");
        FILE *f = freopen("/dev/null", "w", stdout); (void)f;
        execl(drv.c_str(), drv.c_str(), casef.c_str(), ck.c_str(), log.c_str(), fin.c_str(), (char *)nullptr); _exit(127);
    }
    int st = 0; waitpid(pid, &st, 0); return WIFEXITED(st) ? WEXITSTATUS(st) : 1000 + WTERMSIG(st);
}
std::vector<std::string> read_lines(const std::string &p) { std::vector<std::string> v; std::ifstream f(p); std::string l; while (std::getline(f, l)) v.push_back(l); return v; }
bool exists(const std::string &p) { struct stat sb; return stat(p.c_str(), &sb) == 0; }
}

void check_C17(Src &s, Ctx &ctx) {
    const char *drv = getenv("VERIF_C17_DRIVER"), *shim = getenv("VERIF_C17_SHIM");
    if (!drv || !shim) throw Violation("C17.setup", "VERIF_C17_DRIVER / VERIF_C17_SHIM are not set (run through run_check.py)");
    // harness choices first, then the configuration bytes that the driver decodes
    int ksel = (int)s.u16(); static const int fr[4][2] = {{0, 1}, {1, 4}, {1, 2}, {1, 1}}; int fsel = s.pick(4);
    std::string wd = cfg().workdir, casef = wd + "/c17.case", ck = wd + "/c17ckpt", log = wd + "/c17.log", fin = wd + "/c17.final";
    { std::ofstream f(casef, std::ios::binary); f.write((const char *)s.p + s.i, (std::streamsize)(s.n - s.i)); }
    // the same decoding as the driver (engine/c17/c17config.hpp)
    bool big = s.n > 1 && ((unsigned)s.p[s.n - 1] + 256u * (unsigned)s.p[s.n - 2]) % 300u == 5u;   // thorough tier: about one case in three hundred grows beyond 1000 loaded points
    if (big) setenv("VERIF_C17_BIG", "1", 1); else unsetenv("VERIF_C17_BIG");
    GridState st; C17Config cf = c17_decode(s, st, big); size_t budget = cf.budget; bool parallel = cf.parallel;
    if (big) ctx.label("big-construction");
    s.i = s.n;
    auto cleanup = [&]() { for (auto &p : {ck, ck + "_old", log, fin}) unlink(p.c_str()); };
    // ---- dry run: number of checkpoint operations
    cleanup();
    int rc0 = run_driver(drv, shim, casef, ck, log, fin, -1, 0, 1);
    auto l0 = read_lines(log);
    if (!l0.empty() && l0.back() == "DISCARD") throw Discard("driver discarded the configuration");
    VF_REQUIRE("C17.dry-run-failed", rc0 == 0 && !l0.empty() && l0.back() == "DONE", "fault-free run exited with " << rc0 << (l0.empty() ? "" : ": " + l0.back()));
    long nops = 0; for (auto &l : l0) if (l.rfind("FS ", 0) == 0) nops++;
    ctx.log(l0[0] + " | " + std::to_string(nops) + " checkpoint file operations in a fault-free run");
    if (nops < 4) throw Discard("no checkpoint activity");
    long k = 1 + (long)(ksel % nops);
    // ---- run 1: killed at operation k
    cleanup();
    int rc1 = run_driver(drv, shim, casef, ck, log, fin, k, fr[fsel][0], fr[fsel][1]);
    auto l1 = read_lines(log);
    if (rc1 == 0 && parallel) throw Discard("parallel run issued fewer checkpoint operations than the dry run (schedule dependent): kill index not reached");
    VF_REQUIRE("C17.kill-did-not-happen", rc1 == 137 && std::find(l1.begin(), l1.end(), std::string("KILLED")) != l1.end() /* (worker threads may still log a line between the marker and the exit) */, "expected the injector to kill run 1 at operation " << k << " but it exited with " << rc1);
    std::string killed_op; for (auto it = l1.rbegin(); it != l1.rend(); ++it) if (it->rfind("FS ", 0) == 0) { killed_op = *it; break; }
    ctx.log("kill at operation " + std::to_string(k) + " of " + std::to_string(nops) + ": " + killed_op + " (torn fraction " + std::to_string(fr[fsel][0]) + "/" + std::to_string(fr[fsel][1]) + ")");
    // events of run 1: samples and completed checkpoints (a checkpoint is complete when the main file written after an "open-trunc main" is closed)
    std::vector<std::string> S1; std::set<std::string> after_last_ck; int completed_ck = 0; bool writing_main = false, wrote = false; bool old_seen = false;
    for (auto &l : l1) {
        if (l.rfind("SAMPLE", 0) == 0) { S1.push_back(l); after_last_ck.insert(l); }
        else if (l.rfind("FS ", 0) == 0) { std::stringstream ss(l); std::string fs, idx, what, which; ss >> fs >> idx >> what >> which;
            if (which == "old") old_seen = true;
            // the main file is unreadable from its first truncation until the close that completes its rewrite
            if (what == "open-trunc" && which == "main") { writing_main = true; } else if (what == "write" && which == "main" && writing_main) wrote = true;
            else if (what == "close" && which == "main" && writing_main && wrote) { completed_ck++; after_last_ck.clear(); writing_main = false; wrote = false; } }
    }
    bool main_exists = exists(ck), old_exists = exists(ck + "_old");
    // (5) both documented files exist once a checkpoint() beyond the initial one has completed
    bool k1 = ctx.excl("C17-backup-never-written");   // known finding: no backup file exists, a kill inside the rewrite of the main file leaves no readable checkpoint
    if (k1 && writing_main) { ctx.label("excluded:kill-inside-main-rewrite"); ctx.count("excluded-kill-inside-main-rewrite"); cleanup(); return; }
    if (completed_ck >= 2 && !k1) VF_REQUIRE("C17.backup-file-missing", old_exists, "after " << completed_ck << " completed checkpoints the backup file <name>_old does not exist (main file " << (main_exists ? "exists" : "missing") << ", backup ever opened: " << (old_seen ? "yes" : "no") << ")");
    // ---- run 2: restart with the same checkpoint name, no faults
    size_t mark = l1.size();
    int rc2 = run_driver(drv, shim, casef, ck, log, fin, -1, 0, 1);
    auto l2 = read_lines(log);
    VF_REQUIRE("C17.restart-failed", rc2 == 0 && !l2.empty() && l2.back() == "DONE", "the restart after the crash exited with " << rc2 << (l2.empty() ? "" : ": " + l2.back()));
    std::vector<std::string> S2; for (size_t i = mark; i < l2.size(); i++) if (l2[i].rfind("SAMPLE", 0) == 0) S2.push_back(l2[i]);
    // (3) recomputation bound (sequential mode: every computed sample is part of the next checkpoint)
    if (!parallel) { std::set<std::string> s1(S1.begin(), S1.end()); size_t redone = 0, not_allowed = 0; std::string example;
        for (auto &x : S2) if (s1.count(x)) { redone++; if (!after_last_ck.count(x)) { not_allowed++; if (example.empty()) example = x; } }
        ctx.count("recomputed-samples", (long)redone);
        VF_REQUIRE("C17.recomputed-checkpointed-work", not_allowed == 0, "the restart recomputed " << not_allowed << " samples (e.g. " << example << ") that had been obtained BEFORE the last checkpoint completed prior to the crash (" << completed_ck << " completed checkpoints, " << S1.size() << " samples in run 1, " << after_last_ck.size() << " after the last completed checkpoint, " << S2.size() << " samples in the restart)"); }
    // (2)+(4) final grid: values are the model values, surrogate reproduces them, budget respected
    TasmanianSparseGrid fg; fg.read(fin.c_str());
    VF_REQUIRE("C17.final-grid", !fg.empty() && !fg.isUsingConstruction() && fg.getNumLoaded() > 0, "final grid is empty or still under construction");
    if (!((st.spec.family == F_GLOBAL || st.spec.family == F_FOURIER || st.spec.family == F_SEQ) && ctx.excl("C17-budget-after-restart")))
    VF_REQUIRE("C17.budget", (size_t)fg.getNumLoaded() <= budget + 2, "final grid has " << fg.getNumLoaded() << " points, budget " << budget);
    { GridState fs; fs.spec = st.spec; fs.vm = st.vm; fs.g = std::move(fg); auto pts = fs.g.getLoadedPoints(); fs.record(pts, fs.values_for(pts));
      const double *v = fs.g.getLoadedValues(); int d = st.spec.dims, outs = st.spec.outs;
      for (size_t i = 0; i < pts.size() / (size_t)d; i++) for (int o = 0; o < outs; o++) { double e = st.vm(&pts[i * (size_t)d], d, o, 0); VF_REQUIRE("C17.corrupt-value", std::memcmp(&e, &v[i * (size_t)outs + (size_t)o], sizeof e) == 0, "loaded value at point #" << i << " output " << o << " is " << decd(v[i * (size_t)outs + (size_t)o]) << ", the model gives " << decd(e)); }
      bool complete = st.spec.family != F_LOCALP || parent_complete(fs) || dag_closed(fs);
      check_nodal(ctx, "C17.final-surrogate", fs, st.spec.family == F_WAVE ? 1e-8 : 1e-9, complete); }
    cleanup();
    bool inside_write = killed_op.find("write(torn)") != std::string::npos;
    ctx.label(std::string("fam:") + fam_name(st.spec.family)); ctx.label(parallel ? "mode:parallel" : "mode:sequential"); ctx.label(inside_write ? "kill:inside-write" : (killed_op.find("open") != std::string::npos ? "kill:at-open" : "kill:at-close"));
    if (completed_ck >= 1) ctx.label("kill:after-a-completed-checkpoint");
    ctx.count("kill-restart-pairs");
    ctx.nontrivial = completed_ck >= 1;
}
VF_REGISTER(C17, check_C17, "configuration (family, budget 6-25, batch, sequential/parallel) x kill index over every intercepted open/write/close on the checkpoint files of a fault-free run x torn-write fraction (0, 1/4, 1/2, all but one byte) x restart; "
            "non-trivial = the kill lands after at least one completed checkpoint (inside or between the operations of a later one)");
} // namespace vf
