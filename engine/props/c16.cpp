// C16 - the tasgrid command-line tool is equivalent to the library API.
// A case is a script of 2-8 invocations of the real tasgrid binary (ASan+UBSan build, path in $VERIF_TASGRID) that share one grid
// file in the private work directory. Every invocation is mirrored in-process by the documented API call sequence (DESIGN.md,
// Appendix C; Doxygen/InterfaceCLI.md; tasgrid <command> help) executed on the grid read from the mirror's own grid file.
// Oracles after every invocation:
//   tool-crash / tool-timeout      the tool must not die of a signal / sanitizer report / hang
//   rejects-documented-input       the mirror API sequence succeeds and the options follow the help text, but the tool exits non-zero
//   tool-aborts                    same, but the tool dies of an uncaught exception
//   accepts-what-api-rejects       the API sequence throws but the tool reports success
//   missing-output / output-format / output-shape / output-values   matrices written with -outfile (both formats) and -print, parsed by
//                                  the harness' own readers, equal the mirror's arrays to 1e-13 relative
//   text-output                    -summary / -using-construct text equals printStats() / isUsingConstruction()
//   grid-unreadable / grid-digest / grid-rewrite-bytes / grid-file-bytes   the grid file written by the tool reads back to the mirror's
//                                  observable digest, re-writes to the mirror's bytes and is byte-identical to the mirror's file
//   readonly-modified-grid         a read-only command leaves the grid file byte-identical
// Known-finding classes are excluded by construction through ctx.excl(<id>) (ids in the table below); with the exclusion off
// (id not listed in known_findings.json, or --no-exclude) the offending shape is generated and reported.
#include "refmodel/c16_io.hpp"

namespace vf {
namespace {

// ---- known-finding ids (developer aid: VERIF_C16_KNOWN="id,id" or "all" marks them known without touching known_findings.json)
const char *K_OUT0 = "C16-outputs-zero";                 // checkSane rejects -outputs 0 although help/API allow zero outputs
const char *K_MQLOCAL = "C16-makequadrature-localp";     // -makequadrature with a local polynomial rule is routed to makeWaveletGrid
const char *K_SCALE = "C16-refine-scale-shape";          // refineGrid checks the -valsfile shape inverted w.r.t. the library (outputs >= 2)
const char *K_FLOAT = "C16-float-options";               // -alpha/-beta/-tolerance are parsed with std::stof (single precision)
const char *K_GNNAME = "C16-getneededpoints-name";       // documented command name -getneededpoints is not accepted
const char *K_SCALIAS = "C16-sc-alias";                  // documented shorthand -sc of -setcoefficients executes -setconformal
const char *K_SETCF = "C16-setcoefficients-fourier";     // -setcoefficients on a Fourier grid does not convert the documented interleaved layout
const char *K_REFF = "C16-refine-fourier";               // -refine on a Fourier grid (documented: anisotropic) calls surplus refinement and dies
const char *K_REFTYPE = "C16-refinesurp-reftype";        // -refinesurp requires -reftype also for Sequence/Global grids (help: local grids only)
const char *K_UPDOUT = "C16-makeupdate-no-output";       // -makeupdate ignores -outputfile/-print although help promises the new points
const char *K_UCWRITE = "C16-using-construct-rewrites"; // the query -using-construct re-writes the grid file (binary unless -ascii is given)
const char *K_NIDX = "C16-getneededindexes-empty";       // -getneededindexes/-getpointsindexes with zero rows: &vector[0] of an empty vector (UBSan) in outputIndexes
const char *K_EHS0 = "C16-evalhierarchys-empty";         // -evalhierarchys with ascii/-print output and no non-zero: IO::writeVector reads x[0] of an empty vector
const std::vector<const char *> ALL_K = {K_EHS0, K_NIDX, K_UCWRITE, K_OUT0, K_MQLOCAL, K_SCALE, K_FLOAT, K_GNNAME, K_SCALIAS, K_SETCF, K_REFF, K_REFTYPE, K_UPDOUT};

void dev_known_once() {
    static bool done = false; if (done) return; done = true;
    const char *e = getenv("VERIF_C16_KNOWN"); if (!e) return;
    std::stringstream ks(e); std::string k;
    while (std::getline(ks, k, ',')) { if (k == "all") for (auto id : ALL_K) cfg().known.insert(id); else if (!k.empty()) cfg().known.insert(k); }
}

// The short command names are documentation of the tree under test: the second column of the command table printed by `tasgrid -help`.
// (Only consulted where a repair may legitimately change what is advertised; the other names are transcribed in the generator.)
const std::string &help_text(const char *tool, const std::string &dir) {
    static std::string h; static bool done = false;
    if (!done) { done = true; Run r = run_tool({tool, "-help"}, dir); h = r.out + r.err; }
    return h;
}
bool help_advertises_short(const char *tool, const std::string &dir, const std::string &lname, const std::string &sname) {
    std::istringstream is(help_text(tool, dir)); std::string line;
    while (std::getline(is, line)) { std::istringstream ls(line); std::string a, b; ls >> a >> b; if (a == "-" + lname) return b == "-" + sname; }
    return false;
}

struct Skip {};   // the mirror found the invocation too expensive (point cap): it is not executed at all

struct InFile { std::string name; Mat m; bool binary; int style; };
struct Expect { bool has_mat = false; Mat mat; bool vector = false;   // vector: a list of numbers whose orientation (row or column) the documentation leaves open
                bool has_sparse = false; Sparse sp; bool has_text = false; std::string text; };

struct Inv {
    std::string lname, sname;             // command: documented long and short name (without '-')
    std::vector<std::string> args;        // options after the command
    std::vector<InFile> files;            // input matrices written before the run
    bool ascii = false, print = false, of = false;
    bool creates = false;                 // make*: starts from an empty object
    bool writes = false;                  // the command is not read-only: the tool re-writes the grid file
    bool uses_grid = true;                // -gridfile is passed
    bool positional_grid = false;         // 'tasgrid -s <filename>'
    bool complex_print = false;           // -print uses std::complex formatting (Fourier coefficients): not parsed
    int style = 0, nopt = 0;
    std::string note;                     // normalised description of the generated data
};

struct Script {
    Src &s; Ctx &ctx; std::string dir, tool, gridfile, mirrorfile, outfile;
    bool mirror_ascii = false; std::string mbytes;
    GridSpec spec; ValueModel vm; int salt = 0; int cap = 150;
    bool arbitrary_coeffs = false;        // coefficients not produced by a full load (set/merge): anisotropy estimates are meaningless
    Mat cands;                            // candidates of the last -getconstructpnts (valid until the next mutation)
    int n_exec = 0, n_accepted = 0, n_mut_after_load = 0, idx = 0;
    std::set<std::string> labels;
    Script(Src &s_, Ctx &c_) : s(s_), ctx(c_) {}
    void lab(const std::string &l) { if (labels.insert(l).second) ctx.label(l); }

    // ---------------------------------------------------------------- option helpers
    void opt(Inv &v, const char *lng, const char *sht, const std::string &val) {
        bool use_short = sht && (v.style == 1 || (v.style == 2 && (v.nopt % 2 == 1)));
        v.nopt++; v.args.push_back(std::string("-") + (use_short ? sht : lng)); v.args.push_back(val);
    }
    void flag(Inv &v, const char *lng, const char *sht) { bool use_short = sht && (v.style == 1 || (v.style == 2 && (v.nopt % 2 == 1))); v.nopt++; v.args.push_back(std::string("-") + (use_short ? sht : lng)); }
    std::string fname(const char *stem) { return dir + "/c16_" + stem + std::to_string(idx) + ".mat"; }
    void infile(Inv &v, const char *lng, const char *sht, const char *stem, Mat m) {
        InFile f; f.name = fname(stem); f.m = std::move(m); f.binary = s.chance(1, 2); f.style = s.pick(3);
        opt(v, lng, sht, f.name); v.files.push_back(std::move(f));
    }
    Inv start(const char *lname, const char *sname) { Inv v; v.lname = lname; v.sname = sname ? sname : ""; v.style = s.pick(3); v.ascii = s.chance(1, 2); return v; }
    // output means: required = the command is useless (and rejected) without -outfile/-print
    void outputs(Inv &v, bool required) {
        int m = required ? s.weighted({6, 2, 2}) : s.weighted({5, 2, 1, 4});
        v.of = (m == 0 || m == 1); v.print = (m == 1 || m == 2);
    }
    static Mat row_of_ints(const std::vector<int> &w) { Mat m; m.rows = 1; m.cols = (int)w.size(); for (int x : w) m.v.push_back((double)x); return m; }
    double fl(double x) { double f = (double)(float)x; if (f == x) return x; return ctx.excl(K_FLOAT) ? f : x; }   // known finding: options parsed in single precision (the text passed is the 17-digit form of the returned value)

    // ---------------------------------------------------------------- documented API sequence of the make commands
    static void api_make(TasmanianSparseGrid &g, const GridSpec &sp, int depth, int outs, const std::string &customfile) {
        switch (sp.family) {
        case F_GLOBAL: g.makeGlobalGrid(sp.dims, outs, depth, sp.type, sp.rule, sp.aw, sp.alpha, sp.beta, customfile.empty() ? nullptr : customfile.c_str(), sp.limits); break;
        case F_SEQ: g.makeSequenceGrid(sp.dims, outs, depth, sp.type, sp.rule, sp.aw, sp.limits); break;
        case F_LOCALP: g.makeLocalPolynomialGrid(sp.dims, outs, depth, sp.order, sp.rule, sp.limits); break;
        case F_WAVE: g.makeWaveletGrid(sp.dims, outs, depth, sp.order, sp.limits); break;
        case F_FOURIER: g.makeFourierGrid(sp.dims, outs, depth, sp.type, sp.aw, sp.limits); break;
        }
    }
    // custom rule file in the documented format (Doxygen/CustomRuleFileFormat.md): Gauss-Legendre tables, levels 0..11
    std::string write_custom() {
        std::string p = dir + "/c16_custom.table"; std::string b = "description: verif custom gauss-legendre\nlevels: 12\n";
        std::vector<std::vector<double>> nodes, weights;
        for (int l = 0; l < 12; l++) { TasmanianSparseGrid t; t.makeGlobalGrid(1, 0, l, type_level, rule_gausslegendre); nodes.push_back(t.getPoints()); weights.push_back(t.getQuadratureWeights());
            b += std::to_string(l + 1) + " " + std::to_string(2 * l + 1) + "\n"; }
        for (int l = 0; l < 12; l++) for (size_t i = 0; i < nodes[(size_t)l].size(); i++) b += decd(weights[(size_t)l][i]) + " " + decd(nodes[(size_t)l][i]) + "\n";
        spit(p, b); return p;
    }
    // lowers the depth (written back) until the grid of the spec has <= cap points (same policy as make_grid of grid.hpp)
    void fit_depth(GridSpec &sp, int capn, const std::string &customfile) {
        int good = -1;
        for (int d = 0; d <= sp.depth; d++) {
            try { TasmanianSparseGrid t; api_make(t, sp, d, 0, customfile); if (t.getNumPoints() > capn) break; good = d; }
            catch (std::runtime_error &) { break; }
        }
        if (good < 0) throw Discard("depth 0 grid exceeds the cap or the table");
        sp.depth = good;
    }
    // options of a make command from a spec; quadrature = -makequadrature (no -outputs, family by rule)
    void make_opts(Inv &v, GridSpec &sp, bool quadrature, std::string &customfile) {
        customfile.clear();
        if (sp.custom) { customfile = write_custom(); sp.rule = rule_customtabulated; }
        sp.alpha = fl(sp.alpha); sp.beta = fl(sp.beta);
        fit_depth(sp, quadrature ? 80 : cap, customfile);
        opt(v, "dimensions", "dim", std::to_string(sp.dims));
        if (!quadrature) opt(v, "outputs", "out", std::to_string(sp.outs));
        opt(v, "depth", "dt", std::to_string(sp.depth));
        bool has_type = sp.family == F_GLOBAL || sp.family == F_SEQ || sp.family == F_FOURIER;
        if (has_type) opt(v, "type", "tt", type_name(sp.type));
        if (sp.family == F_GLOBAL || sp.family == F_SEQ || sp.family == F_LOCALP || quadrature) opt(v, "onedim", "1d", rule_name(sp.rule));
        if (sp.family == F_LOCALP || sp.family == F_WAVE) opt(v, "order", "or", std::to_string(sp.order));
        if (sp.family == F_GLOBAL && rule_uses_alpha(sp.rule)) opt(v, "alpha", nullptr, decd(sp.alpha));
        if (sp.family == F_GLOBAL && rule_uses_beta(sp.rule)) opt(v, "beta", nullptr, decd(sp.beta));
        if (!customfile.empty()) opt(v, "customfile", "cf", customfile);
        if (!sp.aw.empty()) infile(v, "anisotropyfile", "af", "aniso", row_of_ints(sp.aw));
        if (!sp.limits.empty()) infile(v, "levellimitsfile", "lf", "limits", row_of_ints(sp.limits));
        if (!sp.ta.empty()) { Mat m; m.rows = sp.dims; m.cols = 2; for (int j = 0; j < sp.dims; j++) { m.v.push_back(sp.ta[(size_t)j]); m.v.push_back(sp.tb[(size_t)j]); } infile(v, "transformfile", "tf", "transform", std::move(m)); }
        if (!sp.conformal.empty()) { opt(v, "conformaltype", nullptr, "asin"); infile(v, "conformalfile", nullptr, "conformal", row_of_ints(sp.conformal)); }
    }

    // ---------------------------------------------------------------- points in the domain of the grid (same palette as domain_point)
    std::vector<double> xpoints(const TasmanianSparseGrid &g, int n) {
        static const std::vector<double> pal = {0.0, 0.3, -0.45, 0.77, -0.9, 0.5, -0.125, 1.0, -1.0, 0.0625, 0.99, -0.6};
        int d = g.getNumDimensions(); TypeOneDRule r = g.getRule(); std::vector<double> a, b; bool tr = g.isSetDomainTransfrom(); if (tr) g.getDomainTransform(a, b);
        std::vector<double> x((size_t)n * (size_t)d);
        for (int i = 0; i < n; i++) for (int j = 0; j < d; j++) {
            double c = s.of(pal);
            if (r == rule_fourier) { c = 0.5 * (c + 1.0); if (tr) c = a[(size_t)j] + (b[(size_t)j] - a[(size_t)j]) * c; }
            else if (rule_laguerre(r)) { c = 1.5 * (c + 1.0); if (tr) c = c / b[(size_t)j] + a[(size_t)j]; }
            else if (rule_hermite(r)) { c = 2.0 * c; if (tr) c = c / std::sqrt(b[(size_t)j]) + a[(size_t)j]; }
            else if (tr) c = 0.5 * ((b[(size_t)j] - a[(size_t)j]) * c + (b[(size_t)j] + a[(size_t)j]));
            x[(size_t)i * (size_t)d + (size_t)j] = c;
        }
        return x;
    }
    std::vector<double> values_for(const std::vector<double> &pts, int d, int o) {
        size_t n = pts.size() / (size_t)d; std::vector<double> v(n * (size_t)o);
        for (size_t i = 0; i < n; i++) for (int k = 0; k < o; k++) v[i * (size_t)o + (size_t)k] = vm(&pts[i * (size_t)d], d, k, salt);
        return v;
    }

    // ---------------------------------------------------------------- one invocation: mirror, tool, comparison
    std::string short_path(const std::string &a) const { return a.rfind(dir + "/", 0) == 0 ? a.substr(dir.size() + 1) : a; }
    template <class F> bool step(Inv &v, F &&api) {
        // command name: documented long or short form
        bool use_short = !v.sname.empty() && (v.style == 1 || (v.style == 2 && s.chance(1, 2)));
        std::vector<std::string> argv; argv.push_back(tool); argv.push_back("-" + (use_short ? v.sname : v.lname));
        if (v.positional_grid) argv.push_back(gridfile);
        else if (v.uses_grid) opt(v, "gridfile", "gf", gridfile);
        outfile = dir + "/c16_out" + std::to_string(idx) + ".mat";
        if (v.of) { static const char *names[] = {"outputfile", "of", "outfile"}; int k = v.style == 0 ? 0 : (v.style == 1 ? 1 : 2); v.nopt++; v.args.push_back(std::string("-") + names[k]); v.args.push_back(outfile); }
        if (v.print) flag(v, "print", "p");
        if (v.ascii) v.args.push_back("-ascii");
        for (auto &a : v.args) argv.push_back(a);
        for (auto &f : v.files) write_matrix(f.name, f.m, f.binary, f.style);
        // mirror: documented API sequence on the grid read from the mirror's grid file
        TasmanianSparseGrid g; Expect e; bool api_threw = false; std::string api_msg;
        try { if (!v.creates && v.uses_grid) g.read(mirrorfile.c_str()); api(g, e); }
        catch (Skip &) { return false; }
        catch (Violation &) { throw; } catch (Discard &) { throw; }
        catch (std::exception &ex) { api_threw = true; api_msg = ex.what(); }
        // normalised text of the invocation
        { std::string line = "tasgrid"; for (size_t i = 1; i < argv.size(); i++) { line += " "; line += short_path(argv[i]); } ctx.log(line);
          for (auto &f : v.files) ctx.log("  " + short_path(f.name) + (f.binary ? " [binary] " : " [ascii] ") + mat_text(f.m));
          if (!v.note.empty()) ctx.log("  " + v.note); }
        unlink(outfile.c_str());
        Run r = run_tool(argv, dir);
        n_exec++; ctx.count("invocations");
        std::string cmdline; for (size_t i = 1; i < argv.size(); i++) { cmdline += (i > 1 ? " " : ""); cmdline += short_path(argv[i]); }
        auto tail = [](const std::string &t) { return t.size() > 600 ? t.substr(t.size() - 600) : t; };
        if (r.kind == RK_CRASH) throw Violation("C16.tool-crash", "`tasgrid " + cmdline + "` " + r.status + "; stderr: " + tail(r.err));
        if (r.kind == RK_TIMEOUT) throw Violation("C16.tool-timeout", "`tasgrid " + cmdline + "` did not finish within 8 s (the mirror needs milliseconds)");
        if (api_threw) {
            VF_REQUIRE("C16.accepts-what-api-rejects", r.kind != RK_OK, "`tasgrid " << cmdline << "` reports success but the corresponding API sequence throws: " << api_msg);
            ctx.count("both-reject"); lab("both-reject"); ctx.log("  -> rejected by tool and API (" + api_msg + ")");
            return true;
        }
        VF_REQUIRE("C16.rejects-documented-input", r.kind != RK_REJECT, "`tasgrid " << cmdline << "` exits with status " << r.code << " although the options follow the help text and the API sequence succeeds; stderr: " << tail(r.err) << " stdout: " << tail(r.out.substr(0, 200)));
        VF_REQUIRE("C16.tool-aborts", r.kind != RK_ABORT, "`tasgrid " << cmdline << "` dies of an uncaught exception although the API sequence succeeds; stderr: " << tail(r.err));
        n_accepted++; lab("cmd:" + (v.lname == "getneededpoints" ? std::string("getneeded") : v.lname)); lab(v.ascii ? "fmt:ascii" : "fmt:binary"); ctx.count("accepted");
        for (auto &f : v.files) lab(f.binary ? "in:binary-matrix" : "in:ascii-matrix");
        if (use_short) lab("name:short");
        // ---- numerical output
        if (e.has_mat || e.has_sparse) {
            if (v.of) {
                bool ok = false; std::string bytes = slurp(outfile, &ok);
                VF_REQUIRE("C16.missing-output", ok, "`tasgrid " << cmdline << "` succeeded but did not write the -outputfile");
                if (e.has_sparse) compare_sparse(ctx, parse_sparse(bytes, !v.ascii, cmdline), e.sp, cmdline + " (outfile)");
                else compare_mat(ctx, parse_matrix(bytes, !v.ascii, cmdline), e.mat, cmdline + " (outfile)", e.vector);
                ctx.count(v.ascii ? "outfile-ascii" : "outfile-binary");
            }
            if (v.print && !v.complex_print) {
                if (e.has_sparse) compare_sparse(ctx, parse_sparse(r.out, false, cmdline + " -print"), e.sp, cmdline + " (print)");
                else compare_mat(ctx, parse_matrix(r.out, false, cmdline + " -print"), e.mat, cmdline + " (print)", e.vector);
                ctx.count("print-matrix");
            }
        } else if (v.of && !e.has_text) {
            struct stat sb; VF_REQUIRE("C16.unexpected-output", stat(outfile.c_str(), &sb) != 0, "`tasgrid " << cmdline << "` wrote an -outputfile although the command has no documented matrix output");
        }
        if (e.has_text) { ctx.count("text-output"); VF_REQUIRE("C16.text-output", r.out == e.text, "`tasgrid " << cmdline << "` printed [" << r.out << "] but the API gives [" << e.text << "]"); }
        // ---- grid file
        if (v.uses_grid || v.positional_grid) {
            bool ok = false; std::string tbytes = slurp(gridfile, &ok);
            if (v.writes) {
                VF_REQUIRE("C16.grid-unreadable", ok, "`tasgrid " << cmdline << "` succeeded but there is no grid file");
                TasmanianSparseGrid h;
                try { h.read(gridfile.c_str()); } catch (std::exception &ex) { throw Violation("C16.grid-unreadable", "`tasgrid " + cmdline + "` wrote a grid file that cannot be read: " + ex.what()); }
                std::string d = digest_diff(observe(h), observe(g)); ctx.count("grid-digest");
                VF_REQUIRE("C16.grid-digest", d.empty(), "after `tasgrid " << cmdline << "` the grid file differs from the API mirror (tool vs mirror): " << d);
                g.write(mirrorfile.c_str(), v.ascii ? mode_ascii : mode_binary); mbytes = slurp(mirrorfile); mirror_ascii = v.ascii;
                std::string tmp = dir + "/c16_rewrite.tsg"; h.write(tmp.c_str(), v.ascii ? mode_ascii : mode_binary); std::string hbytes = slurp(tmp);
                VF_REQUIRE("C16.grid-rewrite-bytes", hbytes == mbytes, "after `tasgrid " << cmdline << "` the grid read back re-writes to " << hbytes.size() << " bytes that differ from the mirror's " << mbytes.size() << " bytes at offset " << first_diff(hbytes, mbytes));
                VF_REQUIRE("C16.grid-file-bytes", tbytes == mbytes, "after `tasgrid " << cmdline << "` the grid file (" << tbytes.size() << " bytes) differs from the file written by the API mirror (" << mbytes.size() << " bytes) at offset " << first_diff(tbytes, mbytes));
                ctx.count("grid-bytes");
            } else {
                VF_REQUIRE("C16.readonly-modified-grid", ok && tbytes == mbytes, "read-only `tasgrid " << cmdline << "` changed the grid file");
            }
        }
        return true;
    }

    // ---------------------------------------------------------------- commands
    bool do_make(bool first) {
        SpecOpts so; so.cap = cap; so.max_outs = 3; so.min_outs = 0; so.max_dims = 4;
        GridSpec sp = decode_spec(s, so); if (first) vm.decode(s);
        if (sp.outs == 0 && ctx.excl(K_OUT0)) sp.outs = 1;   // (the byte stream is decoded the same way whether or not a class is excluded)
        static const char *ln[] = {"makeglobal", "makesequence", "makelocalpoly", "makewavelet", "makefourier"}; static const char *sn[] = {"mg", "ms", "mp", "mw", "mf"};
        Inv v = start(ln[sp.family], sn[sp.family]); v.creates = true; v.writes = true;
        std::string custom; make_opts(v, sp, false, custom);
        outputs(v, false);
        bool ok = step(v, [&](TasmanianSparseGrid &g, Expect &e) {
            api_make(g, sp, sp.depth, sp.outs, custom); apply_transforms(g, sp);
            e.has_mat = true; e.mat = Mat(g.getNumPoints(), sp.dims, g.getPoints());
        });
        if (ok) { spec = sp; arbitrary_coeffs = false; cands = Mat(); salt = 0; lab(std::string("fam:") + fam_name(sp.family));
            if (sp.outs == 0) lab("outs:0"); if (sp.custom) lab("make:custom"); if (!sp.aw.empty()) lab("make:aniso"); if (!sp.limits.empty()) lab("make:limits");
            if (!sp.ta.empty()) lab("make:transform"); if (!sp.conformal.empty()) lab("make:conformal"); }
        return ok;
    }
    bool do_makequadrature() {
        SpecOpts so; so.cap = 80; so.min_outs = 0; so.max_outs = 0; so.limits = false; so.max_dims = 3;
        GridSpec sp = decode_spec(s, so); sp.outs = 0;
        if (sp.family == F_LOCALP && ctx.excl(K_MQLOCAL)) { sp.family = F_WAVE; sp.rule = rule_wavelet; sp.order = (sp.order == 3) ? 3 : 1; }
        Inv v = start("makequadrature", "mq"); v.creates = true; v.uses_grid = false;
        std::string custom; make_opts(v, sp, true, custom);
        outputs(v, true);
        // "creates a grid with zero outputs and type that is based on the one dimensional rule": sequence rules are global rules
        GridSpec q = sp; if (q.family == F_SEQ) q.family = F_GLOBAL;
        bool ok = step(v, [&](TasmanianSparseGrid &g, Expect &e) {
            api_make(g, q, q.depth, 0, custom); apply_transforms(g, q);
            e.has_mat = true; e.mat = quad_matrix(g);
        });
        if (ok) lab(std::string("mq:") + fam_name(sp.family));
        return ok;
    }
    static Mat quad_matrix(const TasmanianSparseGrid &g) {
        int n = g.getNumPoints(), d = g.getNumDimensions(); auto p = g.getPoints(); auto w = g.getQuadratureWeights(); Mat m; m.rows = n; m.cols = d + 1;
        for (int i = 0; i < n; i++) { m.v.push_back(w[(size_t)i]); for (int j = 0; j < d; j++) m.v.push_back(p[(size_t)i * (size_t)d + (size_t)j]); }
        return m;
    }
    // read-only getters without further input
    bool do_getter(int which, const TasmanianSparseGrid &cur) {
        static const char *ln[] = {"getpoints", "getneeded", "getquadrature", "gethsupport", "getcoefficients", "integrate", "getpointsindexes", "getneededindexes"};
        static const char *sn[] = {"gp", "gn", "gq", "ghsup", "gc", "i", nullptr, nullptr};
        const char *lname = ln[which];
        if (which == 1 && !ctx.excl(K_GNNAME)) lname = "getneededpoints";   // the name printed by the help text and InterfaceCLI.md
        Inv v = start(lname, sn[which]); outputs(v, true);
        if (which == 4 && cur.isFourier()) v.complex_print = true;
        return step(v, [&](TasmanianSparseGrid &g, Expect &e) {
            int d = g.getNumDimensions(), np = g.getNumPoints(), outs = g.getNumOutputs(); e.has_mat = true;
            switch (which) {
            case 0: e.mat = Mat(np, d, g.getPoints()); break;
            case 1: e.mat = Mat(g.getNumNeeded(), d, g.getNeededPoints()); break;
            case 2: e.mat = quad_matrix(g); break;
            case 3: e.mat = Mat(np, d, g.getHierarchicalSupport()); break;
            case 4: { const double *c = g.getHierarchicalCoefficients();
                if (!g.isFourier()) e.mat = Mat(np, outs, std::vector<double>(c, c + (size_t)np * (size_t)outs));
                else { Mat m; m.rows = np; m.cols = 2 * outs; for (int p = 0; p < np; p++) for (int k = 0; k < outs; k++) { m.v.push_back(c[(size_t)p * (size_t)outs + (size_t)k]); m.v.push_back(c[((size_t)np + (size_t)p) * (size_t)outs + (size_t)k]); } e.mat = m; }   // "each pair of consecutive numbers correspond to one complex number"
                break; }
            case 5: e.mat = Mat(1, outs, g.integrate()); e.vector = true; break;
            case 6: { const int *p = g.getPointsIndexes(); Mat m; m.rows = np; m.cols = d; for (size_t i = 0; i < (size_t)np * (size_t)d; i++) m.v.push_back((double)p[i]); e.mat = m; break; }
            case 7: { int nn = g.getNumNeeded(); const int *p = g.getNeededIndexes(); Mat m; m.rows = nn; m.cols = d; for (size_t i = 0; i < (size_t)nn * (size_t)d; i++) m.v.push_back((double)p[i]); e.mat = m; break; }
            }
        });
    }
    // read-only commands with an -xfile
    bool do_evallike(int which, const TasmanianSparseGrid &cur) {
        static const char *ln[] = {"evaluate", "differentiate", "getinterweights", "getdiffweights", "evalhierarchyd", "evalhierarchys"};
        static const char *sn[] = {"e", "d", "gi", "gd", "ehd", "ehs"};
        Inv v = start(ln[which], sn[which]);
        int n = 1 + s.pick(6), d = cur.getNumDimensions();
        infile(v, "xfile", "xf", "x", Mat(n, d, xpoints(cur, n)));
        outputs(v, true);
        return step(v, [&](TasmanianSparseGrid &g, Expect &e) {
            const std::vector<double> &x = v.files[0].m.v; int np = g.getNumPoints(), outs = g.getNumOutputs();
            if (which == 5) { e.has_sparse = true; e.sp.cols = np; g.evaluateSparseHierarchicalFunctions(x, e.sp.pntr, e.sp.indx, e.sp.vals); e.sp.rows = n;
                if (e.sp.vals.empty() && ((v.of && v.ascii) || v.print) && ctx.excl(K_EHS0)) throw Skip(); return; }
            e.has_mat = true; Mat m; m.rows = n;
            switch (which) {
            case 0: m.cols = outs; m.v.resize((size_t)n * (size_t)outs); g.evaluateBatch(x.data(), n, m.v.data()); break;
            case 1: m.cols = outs * d; for (int i = 0; i < n; i++) { std::vector<double> j; g.differentiate(std::vector<double>(x.begin() + (long)i * d, x.begin() + (long)(i + 1) * d), j); m.v.insert(m.v.end(), j.begin(), j.end()); } break;
            case 2: m.cols = np; for (int i = 0; i < n; i++) { auto w = g.getInterpolationWeights(std::vector<double>(x.begin() + (long)i * d, x.begin() + (long)(i + 1) * d)); m.v.insert(m.v.end(), w.begin(), w.end()); } break;
            case 3: m.cols = np * d; for (int i = 0; i < n; i++) { auto w = g.getDifferentiationWeights(std::vector<double>(x.begin() + (long)i * d, x.begin() + (long)(i + 1) * d)); m.v.insert(m.v.end(), w.begin(), w.end()); } break;
            case 4: { std::vector<double> y; g.evaluateHierarchicalFunctions(x, y); m.cols = np * (g.isFourier() ? 2 : 1); m.v = y; break; }
            }
            e.mat = m;
        });
    }
    bool do_text(int which) {
        Inv v = start(which == 0 ? "summary" : "using-construct", which == 0 ? "s" : nullptr);
        v.positional_grid = s.chance(1, 3);   // "Note that 'tasgrid -s <filename>' is also accepted"
        if (which == 0) v.ascii = false;
        else { if (ctx.excl(K_UCWRITE)) v.writes = true; else v.ascii = false; }   // known finding: the query re-writes the grid file in the format selected by -ascii
        return step(v, [&](TasmanianSparseGrid &g, Expect &e) {
            e.has_text = true; std::ostringstream o;
            if (which == 0) g.printStats(o); else o << "dynamic construction: " << (g.isUsingConstruction() ? "enabled" : "disabled") << "\n";
            e.text = o.str();
        });
    }
    bool do_getpoly(bool /*unused*/) {
        static const std::vector<TypeDepth> iq = {type_iptotal, type_qptotal, type_ipcurved, type_qpcurved, type_iphyperbolic, type_qphyperbolic, type_iptensor, type_qptensor};
        TypeDepth t = s.of(iq); bool interp = (t == type_iptotal || t == type_ipcurved || t == type_iphyperbolic || t == type_iptensor);
        Inv v = start("getpoly", nullptr); opt(v, "type", "tt", type_name(t)); outputs(v, true);
        return step(v, [&](TasmanianSparseGrid &g, Expect &e) { auto p = g.getGlobalPolynomialSpace(interp); int d = g.getNumDimensions(); Mat m; m.rows = (int)p.size() / d; m.cols = d; for (int x : p) m.v.push_back((double)x); e.has_mat = true; e.mat = m; });
    }
    int pick_refout(const TasmanianSparseGrid &cur, Inv &v, bool force) {
        int outs = cur.getNumOutputs(), out;
        if (cur.isGlobal()) { out = s.pick(outs); opt(v, "refout", "rout", std::to_string(out)); return out; }   // "required by global grids"
        out = s.pick(outs + 1) - 1;
        if (out >= 0 || force || s.chance(1, 3)) opt(v, "refout", "rout", std::to_string(out));                  // "defaults to -1 (use all outputs)"
        return out;
    }
    bool do_getanisotropy(const TasmanianSparseGrid &cur) {
        TypeDepth t = ALL_TYPES[(size_t)s.pick(9)];
        Inv v = start("getanisotropy", "ga"); opt(v, "type", "tt", type_name(t)); int out = pick_refout(cur, v, false); outputs(v, true);
        return step(v, [&](TasmanianSparseGrid &g, Expect &e) { auto w = g.estimateAnisotropicCoefficients(t, out); e.has_mat = true; e.mat = row_of_ints(w); e.vector = true; });
    }
    bool do_loadvalues(const TasmanianSparseGrid &cur) {
        int d = cur.getNumDimensions(), outs = cur.getNumOutputs(); bool had = cur.getNumLoaded() > 0; bool full = cur.getNumNeeded() == 0 || !had;
        if (cur.getNumNeeded() == 0) salt++;   // overwriting reload: new values
        auto pts = cur.getNumNeeded() > 0 ? cur.getNeededPoints() : cur.getLoadedPoints();
        Inv v = start("loadvalues", "l"); v.writes = true;
        infile(v, "valsfile", "vf", "vals", Mat((int)(pts.size() / (size_t)d), outs, values_for(pts, d, outs)));
        bool ok = step(v, [&](TasmanianSparseGrid &g, Expect &) { g.loadNeededValues(v.files[0].m.v); });
        if (ok) { if (had) n_mut_after_load++; if (full) arbitrary_coeffs = false; cands = Mat(); lab(had ? (full ? "load:reload" : "load:refinement") : "load:first"); }
        return ok;
    }
    bool do_setcoefficients(const TasmanianSparseGrid &cur) {
        int outs = cur.getNumOutputs(), np = cur.getNumPoints(); bool had = cur.getNumLoaded() > 0; bool fourier = cur.isFourier();
        if (fourier && ctx.excl(K_SETCF)) return false;
        int var = s.byte(); int cols = outs * (fourier ? 2 : 1); Mat m; m.rows = np; m.cols = cols;
        for (size_t i = 0; i < (size_t)np * (size_t)cols; i++) m.v.push_back(0.125 * (double)((int)((i * 5 + (size_t)var * 3) % 17) - 8));
        bool alias = help_advertises_short(tool.c_str(), dir, "setcoefficients", "sc") && !ctx.excl(K_SCALIAS);   // (a tree that documents the shorthand must honour it)
        Inv v = start("setcoefficients", alias ? "sc" : nullptr); v.writes = true;
        infile(v, "valsfile", "vf", "coeffs", m);
        bool ok = step(v, [&](TasmanianSparseGrid &g, Expect &) {
            const std::vector<double> &c = v.files[0].m.v;
            if (!fourier) { g.setHierarchicalCoefficients(c); return; }
            // documented CLI layout: consecutive (real, imaginary) pairs per output; API layout: all real strips, then all imaginary strips
            std::vector<double> api((size_t)2 * (size_t)np * (size_t)outs);
            for (int p = 0; p < np; p++) for (int k = 0; k < outs; k++) { api[(size_t)p * (size_t)outs + (size_t)k] = c[(size_t)p * (size_t)cols + 2 * (size_t)k]; api[((size_t)np + (size_t)p) * (size_t)outs + (size_t)k] = c[(size_t)p * (size_t)cols + 2 * (size_t)k + 1]; }
            g.setHierarchicalCoefficients(api);
        });
        if (ok) { if (had) n_mut_after_load++; arbitrary_coeffs = true; cands = Mat(); }
        return ok;
    }
    struct AnisoOpts { TypeDepth type; int ming = -1, out = -1; std::vector<int> limits; };
    AnisoOpts aniso_opts(const TasmanianSparseGrid &cur, Inv &v) {
        AnisoOpts a; a.type = ALL_TYPES[(size_t)s.pick(9)];
        if (s.chance(1, 3)) a.limits = decode_limits(s, cur.getNumDimensions());
        { // hyperbolic contours with level limits: terminates but not within any test budget (see apply_op in grid.hpp): shape not generated
          bool hyper = a.type == type_hyperbolic || a.type == type_iphyperbolic || a.type == type_qphyperbolic;
          std::vector<int> lim = a.limits.empty() ? cur.getLevelLimits() : a.limits; bool limited = false; for (int l : lim) if (l >= 0) limited = true;
          if (hyper && limited) a.type = (a.type == type_hyperbolic) ? type_level : (a.type == type_iphyperbolic ? type_iptotal : type_qptotal); }
        opt(v, "type", "tt", type_name(a.type));
        if (s.chance(1, 2)) { a.ming = 1 + s.pick(12); opt(v, "mingrowth", "ming", std::to_string(a.ming)); }   // "defaults to 1"
        a.out = pick_refout(cur, v, false);
        if (!a.limits.empty()) infile(v, "levellimitsfile", "lf", "limits", row_of_ints(a.limits));
        return a;
    }
    struct SurpOpts { double tol = 0; TypeRefinement crit = refine_classic; bool has_crit = true; int out = -1; std::vector<int> limits; std::vector<double> scale; };
    SurpOpts surp_opts(const TasmanianSparseGrid &cur, Inv &v, bool construction) {
        SurpOpts o; bool local = cur.isLocalPolynomial() || cur.isWavelet(); int outs = cur.getNumOutputs();
        o.tol = fl(s.of(TOLS)); opt(v, "tolerance", "tol", decd(o.tol));
        o.crit = s.of(REFINE_TYPES);
        // help of -refinesurp: -reftype "required by local polynomial and wavelet grids"
        o.has_crit = true; if (!local && !construction && s.chance(1, 2)) o.has_crit = ctx.excl(K_REFTYPE);
        if (o.has_crit) opt(v, "reftype", "rt", refine_name(o.crit));
        o.out = pick_refout(cur, v, false);
        if (s.chance(1, 3)) { o.limits = decode_limits(s, cur.getNumDimensions()); infile(v, "levellimitsfile", "lf", "limits", row_of_ints(o.limits)); }
        if (cur.isLocalPolynomial() && cur.getNumLoaded() > 0 && s.chance(1, 2)) { int var = s.byte();
            if (construction || outs == 1 || !ctx.excl(K_SCALE)) {
            // library documentation: one correction per loaded point per active output (all outputs for output = -1)
            int act = (o.out == -1) ? outs : 1, n = cur.getNumLoaded();
            for (size_t i = 0; i < (size_t)n * (size_t)act; i++) o.scale.push_back(0.25 * (double)(1 + (int)((i * 7 + (size_t)var) % 8)));
            infile(v, "valsfile", "vf", "scale", Mat(n, act, o.scale)); }
        }
        return o;
    }
    void cap_check(const TasmanianSparseGrid &g) { if (g.getNumNeeded() + g.getNumLoaded() > 4 * cap) throw Skip(); }
    // kind: 0 -refineaniso, 1 -refinesurp, 2 -refine
    bool do_refine(int kind, const TasmanianSparseGrid &cur) {
        bool local = cur.isLocalPolynomial() || cur.isWavelet();
        bool aniso = (kind == 0) || (kind == 2 && !local);   // -refine: anisotropic on Global, Sequence and Fourier grids, surplus on local grids
        static const char *ln[] = {"refineaniso", "refinesurp", "refine"}; static const char *sn[] = {"ra", "rs", "r"};
        Inv v = start(ln[kind], sn[kind]); v.writes = true; outputs(v, false);
        bool ok;
        if (aniso) {
            AnisoOpts a = aniso_opts(cur, v);
            ok = step(v, [&](TasmanianSparseGrid &g, Expect &e) { g.setAnisotropicRefinement(a.type, a.ming < 1 ? 1 : a.ming, a.out, a.limits); cap_check(g);
                e.has_mat = true; e.mat = Mat(g.getNumNeeded(), g.getNumDimensions(), g.getNeededPoints()); });
        } else {
            SurpOpts o = surp_opts(cur, v, false);
            ok = step(v, [&](TasmanianSparseGrid &g, Expect &e) {
                if (local) g.setSurplusRefinement(o.tol, o.crit, o.out, o.limits, o.scale); else g.setSurplusRefinement(o.tol, o.out, o.limits);
                cap_check(g); e.has_mat = true; e.mat = Mat(g.getNumNeeded(), g.getNumDimensions(), g.getNeededPoints()); });
            if (ok && !o.scale.empty()) lab("refine:scale"); if (ok && !o.limits.empty()) lab("refine:limits");
        }
        if (ok) { n_mut_after_load++; cands = Mat(); lab(aniso ? "refine:aniso" : "refine:surplus"); }
        return ok;
    }
    bool do_simple_mut(int which, const TasmanianSparseGrid &cur) {   // 0 cancelrefine, 1 mergerefine
        Inv v = start(which == 0 ? "cancelrefine" : "mergerefine", which == 0 ? "cr" : "mr"); v.writes = true; bool had = cur.getNumLoaded() > 0;
        bool ok = step(v, [&](TasmanianSparseGrid &g, Expect &) { if (which == 0) { g.clearRefinement(); if (g.isUsingConstruction()) g.finishConstruction(); } else g.mergeRefinement(); });
        if (ok) { if (had) n_mut_after_load++; cands = Mat(); if (which == 1) arbitrary_coeffs = true; }
        return ok;
    }
    bool do_update(const TasmanianSparseGrid &cur) {
        int d = cur.getNumDimensions(); int fam = cur.isFourier() ? F_FOURIER : F_GLOBAL;
        int depth = s.range(0, max_depth_for(fam, d)); TypeDepth t = s.of(ALL_TYPES); std::vector<int> aw;
        if (s.chance(1, 3)) aw = decode_aw(s, d, t);
        if (is_tensor_type(t) && !aw.empty()) depth = (depth + 1) / 2;
        Inv v = start("makeupdate", "mu"); v.writes = true; bool had = cur.getNumLoaded() > 0;
        opt(v, "depth", "dt", std::to_string(depth)); opt(v, "type", "tt", type_name(t));
        if (!aw.empty()) infile(v, "anisotropyfile", "af", "aniso", row_of_ints(aw));
        bool want_out = s.chance(1, 2) && !ctx.excl(K_UPDOUT);   // help: "-outputfile or -print output the new points of the grid"
        if (want_out) v.of = true;
        bool ok = step(v, [&](TasmanianSparseGrid &g, Expect &e) { g.updateGrid(depth, t, aw); cap_check(g);
            if (want_out) { e.has_mat = true; e.mat = Mat(g.getNumNeeded(), d, g.getNeededPoints()); } });
        if (ok) { if (had) n_mut_after_load++; cands = Mat(); }
        return ok;
    }
    bool do_setconformal(const TasmanianSparseGrid &cur) {
        int d = cur.getNumDimensions(); std::vector<int> c; for (int j = 0; j < d; j++) c.push_back(s.range(0, 6));
        Inv v = start("setconformal", "sc"); v.writes = true; bool had = cur.getNumLoaded() > 0;
        opt(v, "conformaltype", nullptr, "asin"); infile(v, "conformalfile", nullptr, "conformal", row_of_ints(c));
        bool ok = step(v, [&](TasmanianSparseGrid &g, Expect &) { g.setConformalTransformASIN(c); });
        if (ok) { if (had) n_mut_after_load++; cands = Mat(); }
        return ok;
    }
    bool do_getconstructpnts(const TasmanianSparseGrid &cur) {
        bool local = cur.isLocalPolynomial() || cur.isWavelet(); int d = cur.getNumDimensions(); bool had = cur.getNumLoaded() > 0;
        Inv v = start("getconstructpnts", "gcp"); v.writes = true; outputs(v, true);
        Mat got; bool ok;
        if (local) {
            SurpOpts o = surp_opts(cur, v, true);
            ok = step(v, [&](TasmanianSparseGrid &g, Expect &e) { if (!g.isUsingConstruction()) g.beginConstruction();
                auto p = g.getCandidateConstructionPoints(o.tol, o.crit, o.out, o.limits, o.scale); e.has_mat = true; e.mat = Mat((int)(p.size() / (size_t)d), d, p); got = e.mat; });
        } else {
            TypeDepth t = ALL_TYPES[(size_t)s.pick(9)]; opt(v, "type", "tt", type_name(t));
            bool by_output = had && !arbitrary_coeffs && s.chance(1, 2); std::vector<int> aw, limits; int out = -1;
            if (by_output) out = pick_refout(cur, v, false); else { aw = decode_aw(s, d, t); infile(v, "anisotropyfile", "af", "aniso", row_of_ints(aw)); }
            if (s.chance(1, 3)) { limits = decode_limits(s, d); infile(v, "levellimitsfile", "lf", "limits", row_of_ints(limits)); }
            ok = step(v, [&](TasmanianSparseGrid &g, Expect &e) { if (!g.isUsingConstruction()) g.beginConstruction();
                auto p = by_output ? g.getCandidateConstructionPoints(t, out, limits) : g.getCandidateConstructionPoints(t, aw, limits);
                e.has_mat = true; e.mat = Mat((int)(p.size() / (size_t)d), d, p); got = e.mat; });
        }
        if (ok) { if (had) n_mut_after_load++; cands = got; if (cands.rows > 4 * cap) { cands.rows = 4 * cap; cands.v.resize((size_t)cands.rows * (size_t)d); } lab(had ? "construct:with-data" : "construct:fresh"); }
        return ok;
    }
    bool do_loadconstructed(const TasmanianSparseGrid &cur) {
        int d = cur.getNumDimensions(), outs = cur.getNumOutputs(), nc = cands.rows; bool had = cur.getNumLoaded() > 0;
        int want = std::min(nc, 1 + s.pick(12)); int order = s.pick(3); std::vector<int> idx;
        for (int i = 0; i < want; i++) idx.push_back(order == 0 ? i : (order == 1 ? want - 1 - i : (int)(((size_t)i * 7 + 3) % (size_t)want)));
        if (order == 2) { std::set<int> seen; std::vector<int> u; for (int k : idx) if (seen.insert(k).second) u.push_back(k); idx = u; }
        std::vector<double> x; for (int k : idx) x.insert(x.end(), cands.v.begin() + (long)k * d, cands.v.begin() + (long)(k + 1) * d);
        auto y = values_for(x, d, outs);
        Inv v = start("loadconstructed", "lcp"); v.writes = true;
        infile(v, "xfile", "xf", "x", Mat((int)idx.size(), d, x)); infile(v, "valsfile", "vf", "vals", Mat((int)idx.size(), outs, y));
        bool ok = step(v, [&](TasmanianSparseGrid &g, Expect &) { if (!g.isUsingConstruction()) g.beginConstruction(); g.loadConstructedPoints(x, y); });
        if (ok) { if (had) n_mut_after_load++; std::set<int> gone(idx.begin(), idx.end()); Mat rest; rest.cols = d;
            for (int k = 0; k < nc; k++) if (!gone.count(k)) { rest.v.insert(rest.v.end(), cands.v.begin() + (long)k * d, cands.v.begin() + (long)(k + 1) * d); rest.rows++; }
            cands = rest; }
        return ok;
    }

    // ---------------------------------------------------------------- state-aware choice of the next invocation
    enum Cmd { C_GETPOINTS, C_GETNEEDED, C_GETQUAD, C_HSUPPORT, C_GETCOEFF, C_INTEGRATE, C_PINDEX, C_NINDEX,
               C_EVAL, C_DIFF, C_IWEIGHTS, C_DWEIGHTS, C_EHD, C_EHS, C_SUMMARY, C_USINGC, C_GETPOLY, C_GETANISO, C_LOAD, C_SETCOEFF,
               C_REFANISO, C_REFSURP, C_REFINE, C_CANCEL, C_MERGE, C_UPDATE, C_SETCONF, C_GCP, C_LCP, C_MQ, C_REMAKE };
    bool next() {
        TasmanianSparseGrid cur; cur.read(mirrorfile.c_str());
        int outs = cur.getNumOutputs(), nl = cur.getNumLoaded(), nn = cur.getNumNeeded();
        bool constructing = cur.isUsingConstruction(), conf = cur.isSetConformalTransformASIN();
        bool local = cur.isLocalPolynomial() || cur.isWavelet(), gsf = !local;
        TypeOneDRule rule = cur.getRule();
        bool nested = !cur.isGlobal() || (rule != rule_customtabulated && !OneDimensionalMeta::isNonNested(rule));
        bool aniso_capable = cur.isSequence() || cur.isFourier() || (cur.isGlobal() && nested);
        bool surplus_capable = cur.isSequence() || local || (cur.isGlobal() && rule != rule_customtabulated && OneDimensionalMeta::isSequence(rule));
        bool canon11 = !cur.isFourier() && !(cur.isGlobal() && rule_unbounded(rule));
        bool data = outs > 0 && nl > 0;
        std::vector<std::pair<int, int>> w;   // (command, weight): total must stay below 256
        auto add = [&](int c, int wt, bool legal) { if (legal) w.push_back({c, wt}); };
        add(C_LOAD, nl == 0 ? 40 : (nn > 0 ? 30 : 5), outs > 0 && !constructing && nl + nn > 0);
        add(C_EVAL, 5, data); add(C_INTEGRATE, 4, data); add(C_GETCOEFF, 3, data); add(C_DIFF, 3, data && !conf);   // derivatives are not defined under a conformal map
        add(C_REFANISO, 6, data && aniso_capable && !arbitrary_coeffs && !constructing);
        add(C_REFSURP, 6, data && surplus_capable && !constructing);
        add(C_REFINE, 5, data && !constructing && (local || (aniso_capable && !arbitrary_coeffs)));
        add(C_GETANISO, 5, data && aniso_capable && !arbitrary_coeffs);
        add(C_MERGE, 30, data && nn > 0 && !constructing);
        add(C_CANCEL, (nn > 0 || constructing) ? 7 : 2, nl > 0 || constructing);
        add(C_SETCOEFF, 4, outs > 0 && !constructing && nl + nn > 0);
        add(C_UPDATE, 5, gsf && !constructing && nl + nn > 0);
        add(C_SETCONF, 3, canon11 && !constructing && nl + nn > 0);
        add(C_GCP, 6, outs > 0 && nested && !conf);   // conformal map + construction: outside every listed property (see grid.hpp)
        add(C_LCP, 20, constructing && cands.rows > 0 && !conf);
        bool pts = nl + nn > 0;   // a grid whose initial points were all moved to the construction candidates has no points: only construction commands apply
        add(C_GETPOINTS, 3, pts); add(C_GETNEEDED, 3, pts); add(C_GETQUAD, 3, pts); add(C_HSUPPORT, 3, pts); add(C_PINDEX, 2, pts);
        add(C_NINDEX, 5, pts && cur.isLocalPolynomial()); add(C_IWEIGHTS, 3, pts); add(C_DWEIGHTS, 3, pts && !conf); add(C_EHD, 3, pts); add(C_EHS, 4, pts && local);
        add(C_SUMMARY, 2, true); add(C_USINGC, 2, true); add(C_GETPOLY, 4, pts && (cur.isGlobal() || cur.isSequence()));
        add(C_MQ, 4, true); add(C_REMAKE, 2, true);
        int tot = 0; for (auto &p : w) tot += p.second;
        int r = s.pick(tot), c = w[0].first; for (auto &p : w) { if (r < p.second) { c = p.first; break; } r -= p.second; }
        switch (c) {
        case C_GETPOINTS: return do_getter(0, cur); case C_GETNEEDED: return do_getter(1, cur); case C_GETQUAD: return do_getter(2, cur); case C_HSUPPORT: return do_getter(3, cur);
        case C_GETCOEFF: return do_getter(4, cur); case C_INTEGRATE: return do_getter(5, cur); case C_PINDEX: return do_getter(6, cur); case C_NINDEX: return do_getter((nn == 0 && ctx.excl(K_NIDX)) ? 1 : 7, cur);
        case C_EVAL: return do_evallike(0, cur); case C_DIFF: return do_evallike(1, cur); case C_IWEIGHTS: return do_evallike(2, cur); case C_DWEIGHTS: return do_evallike(3, cur);
        case C_EHD: return do_evallike(4, cur); case C_EHS: return do_evallike(5, cur);
        case C_SUMMARY: return do_text(0); case C_USINGC: return do_text(1); case C_GETPOLY: return do_getpoly(true); case C_GETANISO: return do_getanisotropy(cur);
        case C_LOAD: return do_loadvalues(cur); case C_SETCOEFF: return do_setcoefficients(cur);
        case C_REFANISO: return do_refine(0, cur); case C_REFSURP: return do_refine(1, cur); case C_REFINE: return do_refine((cur.isFourier() && ctx.excl(K_REFF)) ? 0 : 2, cur);
        case C_CANCEL: return do_simple_mut(0, cur); case C_MERGE: return do_simple_mut(1, cur); case C_UPDATE: return do_update(cur); case C_SETCONF: return do_setconformal(cur);
        case C_GCP: return do_getconstructpnts(cur); case C_LCP: return do_loadconstructed(cur); case C_MQ: return do_makequadrature(); default: return do_make(false);
        }
    }
};

} // namespace

void check_C16(Src &s, Ctx &ctx) {
    dev_known_once();
    const char *tool = getenv("VERIF_TASGRID");
    if (!tool || !*tool) throw std::runtime_error("C16 needs the environment variable VERIF_TASGRID (path of the tasgrid binary: python3 build.py asan tasgrid)");
    Script sc(s, ctx); sc.tool = tool; sc.dir = cfg().workdir; sc.cap = cfg().tier ? 200 : 150;
    sc.gridfile = sc.dir + "/c16_grid.tsg"; sc.mirrorfile = sc.dir + "/c16_mirror.tsg";
    unlink(sc.gridfile.c_str()); unlink(sc.mirrorfile.c_str());
    int n = 2 + s.pick(7);
    sc.idx = 0; sc.do_make(true);
    if (sc.mbytes.empty()) { ctx.nontrivial = false; return; }   // (make rejected by both sides: nothing to continue from)
    for (int i = 1; i < n && !s.exhausted(); i++) { sc.idx = i; sc.next(); }   // exhausted input: the simplest continuation is the end of the script
    ctx.count("scripts");
    ctx.nontrivial = sc.n_accepted >= 3 && sc.n_mut_after_load >= 1;
    if (ctx.nontrivial) ctx.label("nontrivial");
}
VF_REGISTER(C16, check_C16, "script of 2-8 invocations of the real tasgrid binary sharing one grid file: make* (all families, options, anisotropy/limits/transform/conformal/custom files) then a state-aware choice among "
            "loadvalues, setcoefficients, refine/refineaniso/refinesurp, cancelrefine, mergerefine, makeupdate, setconformal, getconstructpnts, loadconstructed, makequadrature, re-make and the read-only "
            "get*/evaluate/integrate/differentiate/evalhierarchy*/summary commands; long and short option names, ascii and binary grid and matrix files; each invocation mirrored by the documented API sequence; "
            "non-trivial = at least 3 accepted invocations of which at least one changes the grid after values were loaded");

} // namespace vf
