// C11 - copies are complete, equal to the source and independent of it.
// Generator: source from a history (pending refinement, active construction with parked samples) x copy route (copy constructor,
// operator= onto a used grid, copyGrid full, copyGrid(b,e) incl. e = -1 and e beyond the range) x mutation script on source or copy.
// Oracle: full copy -> identical observable digest; range copy -> digest of the source restricted to [b,e) (values, coefficients,
// surrogate, integrals, and - through a common continuation - the pending construction data); the untouched side is bitwise
// unchanged by mutations of the other side.
#include "history.hpp"
#include "observe.hpp"

namespace vf {
namespace {
void make_used(TasmanianSparseGrid &g, int variant) {   // a destination that already holds a different grid (with a transform / limits / construction flag)
    if (variant == 0) { g.makeLocalPolynomialGrid(2, 2, 2, 1, rule_localp, std::vector<int>{3, 3}); std::vector<double> v((size_t)g.getNumNeeded() * 2, 1.5); g.loadNeededValues(v); g.setDomainTransform({0.0, 1.0}, {1.0, 4.0}); }
    else if (variant == 1) { g.makeSequenceGrid(1, 1, 3, type_level, rule_leja); std::vector<double> v((size_t)g.getNumNeeded(), 0.5); g.loadNeededValues(v); g.setConformalTransformASIN({4}); g.beginConstruction(); }
    else { g.makeFourierGrid(2, 1, 1, type_level); g.setDomainTransform({-1.0, -1.0}, {2.0, 2.0}); }
}
std::string same(const TasmanianSparseGrid &a, const ObserveOpts &oa, const TasmanianSparseGrid &b, bool bitwise = false) { return digest_diff(observe(a, oa), observe(b), bitwise); }
}

void check_C11(Src &s, Ctx &ctx) {
    SpecOpts so; so.min_outs = 0; so.max_outs = 3; so.cap = cfg().tier ? 300 : 200;
    GridState st; st.cap = so.cap; st.ctx = &ctx;
    st.spec = decode_spec(s, so); st.vm.decode(s);
    if (s.n >= 3 && (s.p[s.n - 1] % 8) == 5) { st.vm.degenerate = 1 + (s.p[s.n - 2] % 3); ctx.label("model:degenerate"); }   // one case in eight: constant / affine / one-active-direction model (coefficients vanish exactly)
    if (s.chance(2, 3) && st.spec.outs < 2) st.spec.outs = 2 + s.pick(2);   // range copies need several outputs
    make_grid(st.g, st.spec, so.cap);
    ctx.log(st.spec.text());
    static const std::vector<int> kinds = {OP_LOAD, OP_LOAD, OP_REF_SURP, OP_REF_ANISO, OP_RELOAD, OP_UPDATE, OP_CLEAR_REF, OP_MERGE, OP_SET_COEFF, OP_BEGIN_CONSTR, OP_BEGIN_CONSTR, OP_CANDIDATES,
                                           OP_LOAD_CONSTR, OP_FINISH_CONSTR, OP_SET_TRANSFORM, OP_CLEAR_TRANSFORM, OP_SET_CONFORMAL, OP_CLEAR_LIMITS, OP_ROUNDTRIP};
    run_history(s, st, kinds, s.pick(10), !s.chance(1, 5), [&](const Op &) {});
    const int outs = st.spec.outs;
    // sources under construction: make parked (out-of-order) samples likely, they are what a copy must carry over
    if (st.constructing && !st.target.empty() && s.chance(2, 3)) { Op op; op.kind = OP_LOAD_CONSTR; op.variant = 2; op.count = 2 * s.pick(3); int n = 1 + s.pick(3); for (int i = 0; i < n; i++) op.sel.push_back(s.byte()); apply_op(st, op); }
    int route = s.weighted({1, 1, 1, 3}); if (route == 3) route = 3 + s.pick(3); int b = 0, e = outs;
    GridState cp = st; cp.ctx = nullptr;   // (GridState copy uses the copy constructor; the grid is replaced below through the chosen route)
    TasmanianSparseGrid &C = cp.g; const TasmanianSparseGrid &S = st.g;
    bool range = false; std::string rname;
    switch (route) {
    case 0: { TasmanianSparseGrid t(S); C = std::move(t); rname = "copy-constructor"; break; }
    case 1: { TasmanianSparseGrid t; make_used(t, s.pick(3)); t = S; C = std::move(t); rname = "operator= onto a used grid"; break; }
    case 2: { TasmanianSparseGrid t; if (s.chance(1, 2)) make_used(t, s.pick(3)); t.copyGrid(S); C = std::move(t); rname = "copyGrid(full)"; break; }
    default: {
        if (outs < 1) { TasmanianSparseGrid t; t.copyGrid(&S); C = std::move(t); rname = "copyGrid(pointer)"; break; }
        b = s.pick(outs); int mode = s.pick(3);
        int earg; if (mode == 0) { e = b + 1 + s.pick(outs - b); earg = e; } else if (mode == 1) { e = outs; earg = -1; } else { e = outs; earg = outs + 1 + s.pick(3); }
        TasmanianSparseGrid t; if (s.chance(1, 2)) make_used(t, s.pick(3)); t.copyGrid(S, b, earg); C = std::move(t);
        range = !(b == 0 && e == outs); rname = "copyGrid(" + std::to_string(b) + "," + std::to_string(earg) + ")"; break; }
    }
    ctx.log("route: " + rname);
    ObserveOpts oo; oo.out_begin = b; oo.out_end = e;
    { std::string dd = same(S, oo, C); ctx.count("copy-digest"); VF_REQUIRE("C11.copy-differs", dd.empty(), rname << ": copy differs from " << (range ? "the restriction of the source" : "the source") << ": " << dd); }
    cp.spec.outs = e - b; cp.vm.k0 = st.vm.k0 + b;   // the copy's model is the source's model of the outputs it kept
    // dictionary of the copy: the kept outputs of every recorded sample
    if (range) for (auto &kv : cp.dict) { std::vector<double> v(kv.second.begin() + b, kv.second.begin() + e); kv.second.swap(v); }
    int executed = 0;
    bool pending = st.g.getNumLoaded() > 0 && st.g.getNumNeeded() > 0;
    if (range && st.constructing && !st.target.empty()) {
        // common continuation for range copies under construction: deliver the same new samples to both (the copy gets the slice b..e) and finish;
        // parked data restricted correctly <=> the restricted digests agree again
        std::vector<double> x; int d = st.spec.dims; size_t nt = st.target.size() / (size_t)d; std::set<Coord> have;
        if (S.getNumLoaded()) { auto lp = S.getLoadedPoints(); for (size_t i = 0; i < lp.size() / (size_t)d; i++) have.insert(coord_of(&lp[i * (size_t)d], d)); }
        for (size_t k = 0; k < nt; k++) { Coord c = coord_of(&st.target[k * (size_t)d], d); if (!have.count(c) && !st.dict.count(c) && !st.target_done.count(k)) x.insert(x.end(), c.begin(), c.end()); }
        if (!x.empty()) {
            std::vector<double> y = st.values_for(x), yc; size_t n = x.size() / (size_t)d;
            for (size_t i = 0; i < n; i++) for (int k = b; k < e; k++) yc.push_back(y[i * (size_t)outs + (size_t)k]);
            st.g.loadConstructedPoints(x, y); cp.g.loadConstructedPoints(x, yc); ctx.log("-- continuation: delivered " + std::to_string(n) + " remaining samples to both");
        }
        st.g.finishConstruction(); cp.g.finishConstruction(); executed = 1;
        std::string dd = same(S, oo, C); ctx.count("range-continuation"); VF_REQUIRE("C11.range-copy-construction-data", dd.empty(), rname << ": after a common continuation the copy is no longer the restriction of the source: " << dd);
        ctx.label("range:construction-continuation");
    } else {
        // (a) independence: a script of mutations is applied to one side, the other side must stay bitwise identical;
        // (b) equivalence: the same script is then applied to the other side as well, and the two must agree again (a copy must BEHAVE like its source, not only look like it:
        //     state that no getter shows - pending tensor sets, value storage sizes - only matters for what happens next). Range copies use the kept outputs of the same model
        //     and only operations that do not depend on which outputs exist.
        Digest before_src = observe(S), before_cp = observe(C);
        bool mutate_copy = s.chance(1, 2); int nm = 1 + s.pick(4);
        static const std::vector<int> mkinds = {OP_LOAD, OP_RELOAD, OP_REF_SURP, OP_REF_ANISO, OP_UPDATE, OP_CLEAR_REF, OP_MERGE, OP_SET_COEFF, OP_BEGIN_CONSTR, OP_CANDIDATES, OP_LOAD_CONSTR, OP_FINISH_CONSTR,
                                                OP_SET_TRANSFORM, OP_CLEAR_TRANSFORM, OP_CLEAR_LIMITS};
        static const std::vector<int> rkinds = {OP_LOAD, OP_LOAD, OP_UPDATE, OP_UPDATE, OP_CLEAR_REF, OP_SET_TRANSFORM, OP_CLEAR_TRANSFORM, OP_CLEAR_LIMITS};
        std::vector<Op> script;
        for (int i = 0; i < nm; i++) { Op op = decode_op(s, st.spec, range ? rkinds : mkinds); if (i == 0 && st.g.getNumNeeded() > 0 && !st.constructing) op.kind = OP_LOAD; script.push_back(op); }
        GridState &victim = mutate_copy ? cp : st; GridState &other = mutate_copy ? st : cp;
        victim.ctx = &ctx; ctx.log(std::string("-- mutations applied to the ") + (mutate_copy ? "copy" : "source"));
        std::vector<char> ran; for (auto &op : script) { bool r = apply_op(victim, op); ran.push_back(r); if (r) executed++; }
        victim.ctx = nullptr;
        { std::string dd = mutate_copy ? digest_diff(before_src, observe(S), true) : digest_diff(before_cp, observe(C), true);
          ctx.count("independence"); VF_REQUIRE("C11.not-independent", dd.empty(), "mutating the " << (mutate_copy ? "copy" : "source") << " changed the " << (mutate_copy ? "source" : "copy") << ": " << dd); }
        if (executed > 0 && s.chance(3, 4)) {
            other.ctx = &ctx; ctx.log(std::string("-- the same script applied to the ") + (mutate_copy ? "source" : "copy"));
            bool same_course = true; for (size_t i = 0; i < script.size(); i++) { bool r = apply_op(other, script[i]); if (r != (bool)ran[i]) same_course = false; }
            other.ctx = nullptr;
            VF_REQUIRE("C11.copy-behaves-differently", same_course, rname << ": the same operations are legal on one of source / copy and not on the other");
            std::string dd = same(S, oo, C); ctx.count("equivalence");
            VF_REQUIRE("C11.copy-behaves-differently", dd.empty(), rname << ": after the same " << executed << " operation(s) on both, the copy is no longer " << (range ? "the restriction of the source" : "equal to the source") << ": " << dd);
            ctx.label("equivalence-continuation");
        }
    }
    ctx.label(std::string("fam:") + (S.empty() ? "empty" : fam_name(st.spec.family))); ctx.label("route:" + std::to_string(route < 3 ? route : 3)); if (range) ctx.label("range-copy");
    if (pending) ctx.label("src:pending"); if (st.constructing) ctx.label("src:constructing");
    ctx.nontrivial = (range || executed > 0) && (pending || st.constructing || st.n_refine > 0 || !st.spec.ta.empty());
}
VF_REGISTER(C11, check_C11, "source grid from a generated history (pending refinement, active construction with parked samples, transforms) x copy route (constructor / assignment onto a used grid / copyGrid full / output sub-range incl. -1 and beyond-range end) x mutation script on one side; "
            "non-trivial = (range copy or at least one executed mutation) on a source with pending refinement, active construction, refinement history or a transform");

} // namespace vf
