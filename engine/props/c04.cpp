// C04 - all documented routes to the same quantity agree.
// Generator: any family x history (pending / merged refinement, partial construction, coefficient overwrite) x batches of
// 1/31/32/33/70 points containing interior points, nodes and support-boundary points. Output buffers are pre-poisoned and
// vectors reused, so "not fully overwritten" is visible.
// Oracles: the eight identities listed in DESIGN.md section 3 / C04.
#include "history.hpp"

namespace vf {

static const double POISON = 1e10;

void check_C04(Src &s, Ctx &ctx) {
    SpecOpts so; so.min_outs = 1; so.max_outs = 3; so.cap = cfg().tier ? 350 : 250;
    GridState st; st.cap = so.cap; st.ctx = &ctx;
    // class "adaptive-gaps" (one case in sixteen, from the last byte): the standard adaptive loop on a 2-3 dimensional local polynomial grid with an anisotropic model,
    // several rounds of selective surplus refinement: hierarchies with gaps, where the surpluses and the weights are computed by different algorithms
    const bool gaps_class = s.n >= 4 && (s.p[s.n - 1] % 16) == 9;
    st.spec = decode_spec(s, so); st.vm.decode(s);
    if (s.n >= 3 && (s.p[s.n - 1] % 8) == 5) { st.vm.degenerate = 1 + (s.p[s.n - 2] % 3); ctx.label("model:degenerate"); }   // one case in eight: constant / affine / one-active-direction model (coefficients vanish exactly)
    if (gaps_class) { GridSpec &sp = st.spec; GridSpec g0; sp = g0; sp.family = F_LOCALP; sp.dims = 2 + s.pick(2); sp.outs = 1 + s.pick(2); static const TypeOneDRule lr[] = {rule_localp, rule_localp, rule_localp0, rule_semilocalp, rule_localpb}; sp.rule = lr[s.pick(5)];
        sp.order = 1 + s.pick(3); sp.depth = 1 + s.pick(2); static const double strong[] = {2.0, 1.3, 0.9}, weak[] = {0.15, 0.3, 0.0}; int major = s.pick(sp.dims); for (int j = 0; j < 4; j++) st.vm.w[j] = (j == major) ? strong[s.pick(3)] : weak[s.pick(3)]; }
    make_grid(st.g, st.spec, so.cap);
    ctx.log(st.spec.text() + (gaps_class ? " (class adaptive-gaps)" : "")); ctx.log(st.vm.text());
    static const std::vector<int> kinds = {OP_LOAD, OP_REF_SURP, OP_REF_SURP, OP_REF_SURP, OP_REF_ANISO, OP_REF_ANISO, OP_RELOAD, OP_UPDATE, OP_UPDATE, OP_CLEAR_REF, OP_MERGE, OP_MERGE, OP_SET_COEFF, OP_SET_COEFF,
                                           OP_BEGIN_CONSTR, OP_BEGIN_CONSTR, OP_CANDIDATES, OP_LOAD_CONSTR, OP_FINISH_CONSTR, OP_ROUNDTRIP};
    if (gaps_class) {
        Op ld; ld.kind = OP_LOAD; apply_op(st, ld); static const double tols[] = {1e-2, 3e-3, 1e-3, 3e-2, 1e-4};
        Op rf; rf.kind = OP_REF_SURP; rf.tol = tols[s.pick(5)]; rf.crit = s.pick(3) == 0 ? refine_direction_selective : refine_classic; rf.output = s.pick(2) ? -1 : 0; rf.variant = 1;
        int rounds = 3 + s.pick(4); for (int r = 0; r < rounds && st.g.getNumLoaded() < st.cap; r++) { if (!apply_op(st, rf) || st.g.getNumNeeded() == 0) break; if (!apply_op(st, ld)) break; }
        if (s.chance(1, 3)) { Op rl; rl.kind = OP_RELOAD; apply_op(st, rl); }
        ctx.label("class:adaptive-gaps");
    } else {
        int nops = 1 + s.pick(12);
        run_history(s, st, kinds, nops, true, [&](const Op &) {});
    }
    auto &g = st.g; const int d = st.spec.dims, outs = st.spec.outs;
    if (g.getNumLoaded() == 0) { ctx.label("skip:no-values"); return; }
    const int np = g.getNumPoints(); const bool fourier = g.isFourier(); const bool conformal = g.isSetConformalTransformASIN();
    const bool local = g.isLocalPolynomial() || g.isWavelet();
    const double tau = g.isWavelet() ? 1e-6 : 1e-10;   // wavelet weights come from an iterative solve (GMRES, residual 1e-12) of a matrix whose conditioning grows with the grid: 1.3e-7 relative seen at 300 points in 3-D
    const double tau_diff = (g.isWavelet() || fourier) ? 1e-7 : 1e-9;   // derivative weights of the Fourier basis cancel to ~1e-10 absolute
    bool coeff_overwritten = !st.dict_valid;
    bool lp_complete = !g.isLocalPolynomial() || parent_complete(st);

    // ---- batch of x
    static const int sizes[] = {1, 31, 32, 33, 70};
    int nx = sizes[s.pick(5)];
    std::vector<double> nodes = g.getPoints(), supp = g.getHierarchicalSupport();
    std::vector<double> X; int n_boundary = 0, n_nodes = 0;
    for (int i = 0; i < nx; i++) {
        int mode = s.weighted({4, 2, 3});
        std::vector<double> x = domain_point(s, st);
        if (mode == 1) { int k = s.pick(np); for (int j = 0; j < d; j++) x[(size_t)j] = nodes[(size_t)k * (size_t)d + (size_t)j]; n_nodes++; }
        else if (mode == 2 && local && !conformal) {   // a support boundary of basis k in direction j (kept only if it falls inside the domain)
            int k = s.pick(np), j = s.pick(d); double sgn = s.pick(2) ? 1.0 : -1.0; static const double f[] = {1.0, 1.0 + 1e-9, 1.0 - 1e-9}; double fac = f[s.pick(3)];
            double c = nodes[(size_t)k * (size_t)d + (size_t)j] + sgn * fac * supp[(size_t)k * (size_t)d + (size_t)j];
            double lo = -1, hi = 1; if (!st.spec.ta.empty()) { lo = st.spec.ta[(size_t)j]; hi = st.spec.tb[(size_t)j]; }
            if (c >= lo && c <= hi) { x[(size_t)j] = c; n_boundary++; }
        }
        X.insert(X.end(), x.begin(), x.end());
    }
    ctx.log("x batch of " + std::to_string(nx) + " (" + std::to_string(n_nodes) + " nodes, " + std::to_string(n_boundary) + " support boundaries)");
    const double *vals = g.getLoadedValues(); const double *coef = g.getHierarchicalCoefficients();

    // ---- reference: evaluate per point (poisoned raw buffer)
    std::vector<double> E((size_t)nx * (size_t)outs, POISON);
    for (int r = 0; r < nx; r++) g.evaluate(&X[(size_t)r * (size_t)d], &E[(size_t)r * (size_t)outs]);
    for (double v : E) VF_REQUIRE("C04.evaluate-overwrites", v != POISON, "evaluate left a poisoned output entry");

    // (3) batch rows == evaluate == evaluateFast
    { std::vector<double> B((size_t)nx * (size_t)outs, POISON); g.evaluateBatch(X.data(), nx, B.data());
      std::vector<double> Bv(7, POISON); g.evaluateBatch(X, Bv);    // reused vector of the wrong size
      VF_REQUIRE("C04.batch-size", Bv.size() == B.size(), "evaluateBatch(vector) returned " << Bv.size() << " numbers");
      for (int r = 0; r < nx; r++) {
          std::vector<double> F((size_t)outs, POISON); g.evaluateFast(&X[(size_t)r * (size_t)d], F.data());
          for (int k = 0; k < outs; k++) { size_t q = (size_t)r * (size_t)outs + (size_t)k; double sc = std::max(1.0, std::fabs(E[q]));
              ctx.close("C04.batch-vs-evaluate", B[q], E[q], sc, tau, [&]() { return "evaluateBatch row " + std::to_string(r) + " output " + std::to_string(k); });
              ctx.close("C04.batch-vs-evaluate", Bv[q], E[q], sc, tau, [&]() { return "evaluateBatch(vector) row " + std::to_string(r) + " output " + std::to_string(k); });
              ctx.close("C04.fast-vs-evaluate", F[(size_t)k], E[q], sc, tau, [&]() { return "evaluateFast row " + std::to_string(r) + " output " + std::to_string(k); }); } }
      ctx.count("id3-batch", nx); }

    // (1) evaluate == interpolation weights x values ; (7) differentiate == differentiation weights x values
    // weights x values is asserted for every grid whose values were supplied by a load (the statement has no completeness caveat);
    // after setHierarchicalCoefficients on a local polynomial grid only if the point set is parent-complete
    bool id1 = !(g.isLocalPolynomial() && coeff_overwritten && !lp_complete);
    // known finding C04-incomplete-hierarchy-incremental-surpluses: on a point set that is not parent-complete the surpluses updated incrementally by
    // loadConstructedPoints differ from the ones the batch algorithm (and the weights) imply; while it is listed, the weights identities are not asserted for that class
    if (g.isLocalPolynomial() && !lp_complete && st.n_constr_loads > 0 && ctx.excl("C04-incomplete-hierarchy-incremental-surpluses")) id1 = false;
    std::vector<double> w;   // reused across x
    for (int r = 0; r < nx && id1; r++) {
        std::vector<double> xr(X.begin() + (long)r * d, X.begin() + (long)(r + 1) * d);
        g.getInterpolationWeights(xr, w);
        std::vector<double> wraw((size_t)np, POISON); g.getInterpolationWeights(xr.data(), wraw.data());
        VF_REQUIRE("C04.iweights-size", (int)w.size() == np, "getInterpolationWeights returned " << w.size() << " weights for " << np << " points");
        for (int i = 0; i < np; i++) VF_REQUIRE("C04.iweights-overloads", w[(size_t)i] == wraw[(size_t)i] || (std::isnan(w[(size_t)i]) && std::isnan(wraw[(size_t)i])), "vector and raw-array interpolation weights differ at " << i << ": " << w[(size_t)i] << " vs " << wraw[(size_t)i]);
        for (int k = 0; k < outs; k++) { double sum = 0, sc = 0;
            for (int i = 0; i < np; i++) { sum += w[(size_t)i] * vals[(size_t)i * (size_t)outs + (size_t)k]; sc += std::fabs(w[(size_t)i] * vals[(size_t)i * (size_t)outs + (size_t)k]); }
            ctx.close("C04.weights-times-values", E[(size_t)r * (size_t)outs + (size_t)k], sum, std::max(sc, 1.0), conformal ? 1e-7 : tau, [&]() { return "evaluate vs interpolation weights x values at x#" + std::to_string(r) + " output " + std::to_string(k); }); }
        ctx.count("id1-weights");
    }
    if (!conformal && id1) {
        std::vector<double> dw, jac;
        for (int r = 0; r < std::min(nx, 12); r++) {
            std::vector<double> xr(X.begin() + (long)r * d, X.begin() + (long)(r + 1) * d);
            g.differentiate(xr, jac);
            std::vector<double> jraw((size_t)outs * (size_t)d, POISON); g.differentiate(xr.data(), jraw.data());
            g.getDifferentiationWeights(xr, dw);
            std::vector<double> dret = g.getDifferentiationWeights(xr);
            std::vector<double> draw((size_t)np * (size_t)d, POISON); g.getDifferentiationWeights(xr.data(), draw.data());
            VF_REQUIRE("C04.dweights-size", dw.size() == (size_t)np * (size_t)d && dret.size() == dw.size(), "differentiation weights have size " << dw.size());
            for (int variant = 0; variant < 3; variant++) {
                const std::vector<double> &W = variant == 0 ? dw : (variant == 1 ? dret : draw);
                for (int k = 0; k < outs; k++) for (int j = 0; j < d; j++) { double sum = 0, sc = 0;
                    for (int i = 0; i < np; i++) { double t = W[(size_t)i * (size_t)d + (size_t)j] * vals[(size_t)i * (size_t)outs + (size_t)k]; sum += t; sc += std::fabs(t); }
                    ctx.close("C04.diff-weights-times-values", jac[(size_t)k * (size_t)d + (size_t)j], sum, std::max(sc, 1.0), tau_diff, [&]() { std::ostringstream o; o << "differentiate vs differentiation weights (" << (variant == 0 ? "vector" : variant == 1 ? "returned-vector" : "raw-array") << " overload) x values at x#" << r << " output " << k << " direction " << j; return o.str(); });
                    ctx.close("C04.diff-overloads", jraw[(size_t)k * (size_t)d + (size_t)j], jac[(size_t)k * (size_t)d + (size_t)j], std::max(sc, 1.0), tau_diff, [&]() { return std::string("differentiate raw vs vector overload"); }); }
            }
            ctx.count("id7-diff");
        }
    }

    // (2) evaluate == coefficients x hierarchical functions ; (4) sparse == dense ; (5) support
    {
        std::vector<double> H((size_t)nx * (size_t)np * (fourier ? 2u : 1u), POISON);
        g.evaluateHierarchicalFunctions(X.data(), nx, H.data());
        std::vector<double> Hv; g.evaluateHierarchicalFunctions(X, Hv);
        VF_REQUIRE("C04.hier-size", Hv.size() == H.size(), "evaluateHierarchicalFunctions(vector) size " << Hv.size() << " expected " << H.size());
        for (size_t i = 0; i < H.size(); i++) VF_REQUIRE("C04.hier-overloads", H[i] == Hv[i] && H[i] != POISON, "dense hierarchical matrix: vector/raw overloads differ or entry not written at " << i);
        for (int r = 0; r < nx; r++) for (int k = 0; k < outs; k++) { double sum = 0, sc = 0;
            if (!fourier) for (int j = 0; j < np; j++) { double t = coef[(size_t)j * (size_t)outs + (size_t)k] * H[(size_t)r * (size_t)np + (size_t)j]; sum += t; sc += std::fabs(t); }
            else for (int j = 0; j < np; j++) { double tr = coef[(size_t)j * (size_t)outs + (size_t)k] * H[2 * ((size_t)r * (size_t)np + (size_t)j)], ti = coef[((size_t)np + (size_t)j) * (size_t)outs + (size_t)k] * H[2 * ((size_t)r * (size_t)np + (size_t)j) + 1]; sum += tr - ti; sc += std::fabs(tr) + std::fabs(ti); }
            ctx.close("C04.coefficients-times-basis", E[(size_t)r * (size_t)outs + (size_t)k], sum, std::max(sc, 1.0), tau, [&]() { return "evaluate vs coefficients x hierarchical functions at x#" + std::to_string(r) + " output " + std::to_string(k); }); }
        ctx.count("id2-basis", nx);
        if (local) {
            std::vector<int> pntr, indx; std::vector<double> sv; g.evaluateSparseHierarchicalFunctions(X, pntr, indx, sv);
            VF_REQUIRE("C04.sparse-structure", (int)pntr.size() == nx + 1 && pntr[0] == 0 && pntr.back() == (int)indx.size() && indx.size() == sv.size(), "sparse matrix arrays are inconsistent (pntr " << pntr.size() << ", indx " << indx.size() << ", vals " << sv.size() << ")");
            int nnz = g.evaluateSparseHierarchicalFunctionsGetNZ(X.data(), nx);
            VF_REQUIRE("C04.sparse-getnz", nnz == (int)indx.size(), "GetNZ returned " << nnz << " but the vector variant has " << indx.size() << " entries");
            std::vector<int> p2((size_t)nx + 1, -7), i2((size_t)nnz, -7); std::vector<double> v2((size_t)nnz, POISON);
            g.evaluateSparseHierarchicalFunctionsStatic(X.data(), nx, p2.data(), i2.data(), v2.data());
            VF_REQUIRE("C04.sparse-static", p2 == pntr && i2 == indx && v2 == sv, "static and vector variants of the sparse matrix differ");
            double thr = g.isWavelet() ? 1e-12 : 0.0;
            for (int r = 0; r < nx; r++) {
                VF_REQUIRE("C04.sparse-structure", pntr[(size_t)r] <= pntr[(size_t)r + 1], "pntr not monotone at row " << r);
                std::vector<char> seen((size_t)np, 0);
                for (int q = pntr[(size_t)r]; q < pntr[(size_t)r + 1]; q++) {
                    int j = indx[(size_t)q]; VF_REQUIRE("C04.sparse-structure", j >= 0 && j < np, "sparse index " << j << " out of range");
                    VF_REQUIRE("C04.sparse-structure", !seen[(size_t)j], "duplicate sparse index " << j << " in row " << r); seen[(size_t)j] = 1;
                    double dv = H[(size_t)r * (size_t)np + (size_t)j];
                    ctx.close("C04.sparse-vs-dense", sv[(size_t)q], dv, std::max(1.0, std::fabs(dv)), 1e-14, [&]() { return "sparse entry (x#" + std::to_string(r) + ", basis " + std::to_string(j) + ")"; });
                }
                for (int j = 0; j < np; j++) if (!seen[(size_t)j]) VF_REQUIRE("C04.sparse-omits-nonzero", std::fabs(H[(size_t)r * (size_t)np + (size_t)j]) <= thr, "sparse matrix omits basis " << j << " at x#" << r << " whose dense value is " << H[(size_t)r * (size_t)np + (size_t)j]);
            }
            ctx.count("id4-sparse", nx);
            if (!conformal) {
                long nchk = 0;
                for (int r = 0; r < nx; r++) for (int j = 0; j < np; j++) for (int dir = 0; dir < d; dir++) {
                    double dist = std::fabs(X[(size_t)r * (size_t)d + (size_t)dir] - nodes[(size_t)j * (size_t)d + (size_t)dir]), su = supp[(size_t)j * (size_t)d + (size_t)dir];
                    if (dist > su * (1.0 + 1e-9) + 1e-13) { nchk++;
                        // same threshold as the sparsity pattern of the library (entries below 1e-12 are treated as zero, the cubic wavelets are tabulated)
                        VF_REQUIRE("C04.support", std::fabs(H[(size_t)r * (size_t)np + (size_t)j]) <= 1e-12, "basis " << j << " (node " << nodes[(size_t)j * (size_t)d + (size_t)dir] << ", reported support " << su << ") is " << H[(size_t)r * (size_t)np + (size_t)j] << " at x=" << X[(size_t)r * (size_t)d + (size_t)dir] << " in direction " << dir); }
                }
                ctx.count("id5-support", nchk);
            }
        }
    }

    // (6) integrate == quadrature weights x values == coefficients x basis integrals
    {
        std::vector<double> q((size_t)outs, POISON); g.integrate(q.data());
        std::vector<double> qv(1, POISON); g.integrate(qv);
        std::vector<double> qw((size_t)np, POISON); g.getQuadratureWeights(qw.data());
        for (int k = 0; k < outs; k++) { double sum = 0, sc = 0; for (int i = 0; i < np; i++) { double t = qw[(size_t)i] * vals[(size_t)i * (size_t)outs + (size_t)k]; sum += t; sc += std::fabs(t); }
            VF_REQUIRE("C04.integrate-overloads", qv.size() == (size_t)outs && (qv[(size_t)k] == q[(size_t)k]), "integrate vector/raw overloads differ");
            if (id1) ctx.close("C04.integrate-vs-quadrature", q[(size_t)k], sum, std::max(sc, 1.0), tau * 10, [&]() { return "integrate vs quadrature weights x values, output " + std::to_string(k); }); }
        if (!conformal) {
            std::vector<double> I((size_t)np, POISON); g.integrateHierarchicalFunctions(I.data());
            for (int k = 0; k < outs; k++) { double sum = 0, sc = 0; for (int j = 0; j < np; j++) { double t = coef[(size_t)j * (size_t)outs + (size_t)k] * I[(size_t)j]; sum += t; sc += std::fabs(t); }
                ctx.close("C04.integrate-vs-basis-integrals", q[(size_t)k], sum, std::max(sc, 1.0), tau * 10, [&]() { return "integrate vs coefficients x integrateHierarchicalFunctions, output " + std::to_string(k); }); }
        }
        ctx.count("id6-integrate");
    }

    // (8) setHierarchicalCoefficients / getHierarchicalCoefficients round trip (on a copy, so the identities above used the history state)
    if (!st.constructing && !st.removed) {
        TasmanianSparseGrid h = g;
        size_t n = (size_t)h.getNumPoints() * (size_t)outs * (fourier ? 2u : 1u); std::vector<double> c(n);
        for (size_t i = 0; i < n; i++) c[i] = 0.0625 * (double)((int)((i * 11 + 5) % 23) - 11);
        h.setHierarchicalCoefficients(c);
        const double *back = h.getHierarchicalCoefficients();
        for (size_t i = 0; i < n; i++) VF_REQUIRE("C04.coefficients-roundtrip", back[i] == c[i], "getHierarchicalCoefficients()[" << i << "] = " << back[i] << " after setting " << c[i]);
        if (!h.isGlobal() && (!h.isLocalPolynomial() || lp_complete)) {
            std::vector<double> P = h.getLoadedPoints(), Y; h.evaluateBatch(P, Y); const double *lv = h.getLoadedValues();
            bool excl = h.isWavelet() && h.isSetDomainTransfrom() && ctx.excl("C04-wavelet-transformed-boundary");
            for (size_t i = 0; i < Y.size(); i++) if (!(excl && lib_canonical_outside(h, &P[(i / (size_t)outs) * (size_t)d]))) ctx.close("C04.values-after-set-coefficients", lv[i], Y[i], std::max(1.0, std::fabs(Y[i])), conformal ? 1e-7 : 1e-9, [&]() { return "stored value " + std::to_string(i) + " vs surrogate at its node"; });
        }
        ctx.count("id8-setcoeff");
    }

    bool pending = g.getNumNeeded() > 0; bool merged = false; for (auto &t : st.trace) if (t == "Merge") merged = true;
    ctx.label(std::string("fam:") + fam_name(st.spec.family));
    if (pending) ctx.label("state:pending"); if (merged) ctx.label("state:merged"); if (st.constructing) ctx.label("state:constructing"); if (coeff_overwritten) ctx.label("state:coeff-overwritten");
    if (g.isLocalPolynomial() && !lp_complete) ctx.label(d >= 3 ? "lp:gaps-d>=3" : "lp:gaps-d<=2");
    if (nx >= 32) ctx.label("batch>=32"); if (n_boundary) ctx.label("x:support-boundary");
    ctx.nontrivial = (pending || merged || st.constructing || coeff_overwritten || st.n_refine > 0) && (nx >= 32 || n_boundary > 0);
}
VF_REGISTER(C04, check_C04, "grid spec (all families/rules) x history (pending/merged refinement, partial construction, coefficient overwrite) x batch of 1/31/32/33/70 x; "
            "non-trivial = state has pending or merged refinement, active construction, refinement history or overwritten coefficients AND the batch crosses the 32-row block or contains a support-boundary point");

} // namespace vf
