// C09 - dynamic construction does not depend on arrival order or batching of samples.
// Generator: spec (nested rules, all families) x initial grid (loaded or not) x target set = points of a deeper (or stably refined)
// reference grid of the same spec, loaded in one batch by loadNeededValues x two delivery schedules (permutation x batch partition x
// interleaved candidate queries).
// Oracle: after the last delivery and finishConstruction each run holds exactly the target points, every value attached to its
// coordinate (bitwise), the surrogate equals the batch-loaded reference at probes; the two schedules agree with each other; candidate
// lists are disjoint from the loaded points.
#include "history.hpp"
#include "observe.hpp"

namespace vf {
namespace {
using CSet = std::set<Coord>;

struct Schedule { int order; int batching; std::vector<uint8_t> rnd; int cand_every; };
Schedule decode_schedule(Src &s) { Schedule sc; sc.order = s.pick(4); sc.batching = s.pick(3); int n = 4 + s.pick(20); for (int i = 0; i < n; i++) sc.rnd.push_back(s.byte()); sc.cand_every = s.chance(1, 3) ? 1 + s.pick(4) : 0; return sc; }
std::string sched_text(const Schedule &sc) { static const char *o[] = {"reference-order", "reversed", "shuffled", "interleaved-halves"}; static const char *b[] = {"singles", "one-batch", "random-batches"};
    return std::string(o[sc.order]) + "/" + b[sc.batching] + (sc.cand_every ? "/candidates-every-" + std::to_string(sc.cand_every) : ""); }

void query_candidates(Ctx &ctx, GridState &st) {
    auto &g = st.g; int d = st.spec.dims;
    std::vector<double> c;
    if (st.spec.family == F_LOCALP || st.spec.family == F_WAVE) c = g.getCandidateConstructionPoints(0.0, refine_classic, -1);
    else c = g.getCandidateConstructionPoints(type_level, std::vector<int>((size_t)d, 1));
    if (g.getNumLoaded()) { CSet have; auto lp = g.getLoadedPoints(); for (size_t i = 0; i < lp.size() / (size_t)d; i++) have.insert(coord_of(&lp[i * (size_t)d], d));
        for (size_t i = 0; i < c.size() / (size_t)d; i++) VF_REQUIRE("C09.candidate-already-loaded", !have.count(coord_of(&c[i * (size_t)d], d)), "candidate list contains the loaded point (" << joind(coord_of(&c[i * (size_t)d], d)) << ")"); }
    CSet uniq; for (size_t i = 0; i < c.size() / (size_t)d; i++) VF_REQUIRE("C09.candidate-duplicate", uniq.insert(coord_of(&c[i * (size_t)d], d)).second, "candidate list contains a point twice");
    ctx.count("candidate-queries");
}

// delivers the target points T (coordinates) to st.g following the schedule; returns the number of deliveries that came before a parent/lower neighbour
void deliver(Ctx &ctx, GridState &st, const std::vector<double> &T, const Schedule &sc) {
    int d = st.spec.dims, outs = st.spec.outs; size_t n = T.size() / (size_t)d;
    std::vector<size_t> ord(n); for (size_t i = 0; i < n; i++) ord[i] = i;
    if (sc.order == 1) std::reverse(ord.begin(), ord.end());
    else if (sc.order == 2) { for (size_t i = n; i > 1; i--) { size_t r = (size_t)sc.rnd[(n - i) % sc.rnd.size()] * 131 + (size_t)sc.rnd[(n - i + 1) % sc.rnd.size()] + (n - i) * 7; std::swap(ord[i - 1], ord[r % i]); } }
    else if (sc.order == 3) { std::vector<size_t> o2; for (size_t i = 0; i < (n + 1) / 2; i++) { if (n - 1 - i != i) o2.push_back(n - 1 - i); o2.push_back(i); } ord = o2; }
    size_t pos = 0, nb = 0;
    while (pos < n) {
        size_t bs = sc.batching == 0 ? 1 : (sc.batching == 1 ? n : 1 + (size_t)sc.rnd[nb % sc.rnd.size()] % 5); bs = std::min(bs, n - pos);
        std::vector<double> x; for (size_t q = 0; q < bs; q++) x.insert(x.end(), T.begin() + (long)(ord[pos + q] * (size_t)d), T.begin() + (long)((ord[pos + q] + 1) * (size_t)d));
        std::vector<double> y = st.values_for(x);
        if (bs == 1 && (nb % 2)) st.g.loadConstructedPoints(x.data(), 1, y.data()); else st.g.loadConstructedPoints(x, y);
        st.record(x, y); pos += bs; nb++;
        if (sc.cand_every && (nb % (size_t)sc.cand_every) == 0 && pos < n) query_candidates(ctx, st);
    }
    (void)outs;
}
} // namespace

void check_C09(Src &s, Ctx &ctx) {
    SpecOpts so; so.nonnested = false; so.custom = false; so.conformal = false; so.min_outs = 1; so.max_outs = 3; so.cap = cfg().tier ? 90 : 60;
    GridState base; base.cap = so.cap;
    base.spec = decode_spec(s, so); base.vm.decode(s);
    if (s.n >= 3 && (s.p[s.n - 1] % 8) == 5) { base.vm.degenerate = 1 + (s.p[s.n - 2] % 3); ctx.label("model:degenerate"); }   // one case in eight: constant / affine / one-active-direction model (coefficients vanish exactly)
    if (base.spec.depth > 3) base.spec.depth = 3;
    make_grid(base.g, base.spec, so.cap);
    int d = base.spec.dims;
    bool start_loaded = s.chance(2, 3);
    bool local = base.spec.family == F_LOCALP || base.spec.family == F_WAVE;
    // reference grid: same spec, deeper (or stably refined), values loaded in batches by loadNeededValues
    GridState ref; ref.cap = 4 * so.cap; ref.spec = base.spec; ref.vm = base.vm;
    int extra = 1 + s.pick(2);
    bool refined_target = local && s.chance(1, 3);
    if (!refined_target) {
        GridSpec deeper = base.spec; deeper.limits = base.spec.limits;
        int D = base.spec.depth + extra; TasmanianSparseGrid probe; bool ok = false;
        for (; D > base.spec.depth; D--) { try { make_raw(probe, deeper, D, 0); if (probe.getNumPoints() <= 3 * so.cap) { ok = true; break; } } catch (std::runtime_error &) {} }
        if (!ok) throw Discard("no deeper reference grid within the cap");
        make_raw(ref.g, deeper, D, base.spec.outs); apply_transforms(ref.g, base.spec);
        { Op ld; ld.kind = OP_LOAD; apply_op(ref, ld); }
        ctx.log(base.spec.text() + " | target = same spec at depth " + std::to_string(D));
    } else {
        make_raw(ref.g, base.spec, base.spec.depth, base.spec.outs); apply_transforms(ref.g, base.spec);
        Op ld; ld.kind = OP_LOAD; apply_op(ref, ld);
        int rounds = 1 + s.pick(3);
        for (int r = 0; r < rounds && ref.g.getNumLoaded() < 2 * so.cap; r++) { Op rf; rf.kind = OP_REF_SURP; rf.crit = refine_stable; rf.variant = 1 | (s.pick(4) << 1); rf.output = -1; if (!apply_op(ref, rf) || ref.g.getNumNeeded() == 0) break; apply_op(ref, ld); }
        ctx.log(base.spec.text() + " | target = stable-refined grid with " + std::to_string(ref.g.getNumLoaded()) + " points");
    }
    ctx.log(base.vm.text());
    if (ref.g.getNumLoaded() == 0) throw Discard("empty reference");
    std::vector<double> RP = ref.g.getLoadedPoints(); CSet Rset; for (size_t i = 0; i < RP.size() / (size_t)d; i++) Rset.insert(coord_of(&RP[i * (size_t)d], d));
    // initial state
    if (start_loaded) { Op ld; ld.kind = OP_LOAD; apply_op(base, ld); }
    CSet init; if (base.g.getNumLoaded()) { auto p = base.g.getLoadedPoints(); for (size_t i = 0; i < p.size() / (size_t)d; i++) init.insert(coord_of(&p[i * (size_t)d], d)); }
    for (auto &c : init) if (!Rset.count(c)) throw Discard("initial grid not contained in the reference");   // cannot happen for nested rules
    std::vector<double> T; for (size_t i = 0; i < RP.size() / (size_t)d; i++) if (!init.count(coord_of(&RP[i * (size_t)d], d))) T.insert(T.end(), RP.begin() + (long)(i * (size_t)d), RP.begin() + (long)((i + 1) * (size_t)d));
    if (T.empty()) throw Discard("empty target");
    ctx.log(std::string(start_loaded ? "start: loaded initial grid of " : "start: unloaded initial grid of ") + std::to_string(base.g.getNumPoints()) + " points; target of " + std::to_string(T.size() / (size_t)d) + " points");

    auto probes = probe_points(ref.g, 6); std::vector<double> yref; ref.g.evaluateBatch(probes, yref);
    double scale = 1.0; for (double v : yref) scale = std::max(scale, std::fabs(v)); { const double *v = ref.g.getLoadedValues(); for (size_t i = 0; i < (size_t)ref.g.getNumLoaded() * (size_t)base.spec.outs; i++) scale = std::max(scale, std::fabs(v[i])); }
    std::vector<std::vector<double>> results; std::vector<CSet> loaded_sets;
    Schedule scs[2] = {decode_schedule(s), decode_schedule(s)};
    if (scs[0].order == scs[1].order && scs[0].batching == scs[1].batching) scs[1].order = (scs[1].order + 1) % 4;
    // known finding C09-global-candidates-drop-parked: interleaved candidate queries on Global/Fourier grids are excluded by construction
    if ((base.spec.family == F_GLOBAL || base.spec.family == F_FOURIER) && (scs[0].cand_every || scs[1].cand_every) && ctx.excl("C09-global-candidates-drop-parked")) { scs[0].cand_every = 0; scs[1].cand_every = 0; }
    for (int run = 0; run < 2; run++) {
        GridState st = base; st.ctx = nullptr;
        ctx.log(std::string("schedule ") + (run ? "B: " : "A: ") + sched_text(scs[run]));
        st.g.beginConstruction();
        if (scs[run].cand_every) query_candidates(ctx, st);
        deliver(ctx, st, T, scs[run]);
        st.g.finishConstruction();
        // exact set, association, surrogate
        CSet got; if (st.g.getNumLoaded()) { auto p = st.g.getLoadedPoints(); for (size_t i = 0; i < p.size() / (size_t)d; i++) got.insert(coord_of(&p[i * (size_t)d], d)); }
        for (auto &c : Rset) VF_REQUIRE("C09.sample-dropped", got.count(c), "after the last delivery and finishConstruction the point (" << joind(c) << ") of the target set is not loaded (" << got.size() << " of " << Rset.size() << " points loaded, schedule " << sched_text(scs[run]) << ")");
        VF_REQUIRE("C09.extra-point", got.size() == Rset.size(), "grid holds " << got.size() << " points but the target set has " << Rset.size());
        check_nodal(ctx, "C09.value-association", st, 1e-8, false);   // association only (dictionary lookup), equality below
        { const double *v = st.g.getLoadedValues(); auto p = st.g.getLoadedPoints(); int outs = base.spec.outs;
          for (size_t i = 0; i < p.size() / (size_t)d; i++) { auto it = st.dict.find(coord_of(&p[i * (size_t)d], d)); if (it == st.dict.end()) { VF_REQUIRE("C09.value-association", init.count(coord_of(&p[i * (size_t)d], d)), "loaded point without a supplied value"); continue; }
              for (int k = 0; k < outs; k++) VF_REQUIRE("C09.value-association", std::memcmp(&it->second[(size_t)k], &v[i * (size_t)outs + (size_t)k], sizeof(double)) == 0, "value at (" << joind(it->first) << ") output " << k << " is " << decd(v[i * (size_t)outs + (size_t)k]) << " but " << decd(it->second[(size_t)k]) << " was delivered for it"); } }
        std::vector<double> y; st.g.evaluateBatch(probes, y);
        for (size_t i = 0; i < y.size(); i++) ctx.close("C09.surrogate-vs-batch-reference", y[i], yref[i], scale, st.spec.family == F_WAVE ? 1e-7 : 1e-8, [&]() { return "surrogate at probe entry " + std::to_string(i) + " after schedule " + sched_text(scs[run]); });
        results.push_back(y); loaded_sets.push_back(got); ctx.count("schedules");
    }
    VF_REQUIRE("C09.order-dependence", loaded_sets[0] == loaded_sets[1], "two delivery schedules of the same samples give different loaded sets");
    for (size_t i = 0; i < results[0].size(); i++) ctx.close("C09.order-dependence", results[0][i], results[1][i], scale, base.spec.family == F_WAVE ? 1e-7 : 1e-8, [&]() { return "surrogates of the two schedules differ at probe entry " + std::to_string(i); });
    ctx.label(std::string("fam:") + fam_name(base.spec.family)); ctx.label(start_loaded ? "start:loaded" : "start:empty");
    for (int r = 0; r < 2; r++) { ctx.label(std::string("batch:") + (scs[r].batching == 0 ? "singles" : scs[r].batching == 1 ? "one" : "random")); if (scs[r].cand_every) ctx.label("interleaved-candidates"); }
    if (refined_target) ctx.label("target:stable-refined");
    ctx.nontrivial = (scs[0].order != 0 || scs[1].order != 0) && (scs[0].batching != 1 || scs[1].batching != 1);
}
VF_REGISTER(C09, check_C09, "grid spec (nested rules, all families, limits, transforms) x initial grid (loaded or not) x target = deeper or stably refined reference of the same spec x two delivery schedules "
            "(order: reference/reversed/shuffled/interleaved halves; batching: singles/one batch/random 1-5; optional interleaved candidate queries); non-trivial = some schedule is not in reference order and uses more than one batch");

} // namespace vf
