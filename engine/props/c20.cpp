// C20 - ParticleSwarm only evaluates inside the domain and tracks the true best.
//
// One case = one swarm (1-8 particles, 1-3 dims), one domain, one objective, coefficients, a scripted random stream (table of
// values in [0,1] decoded from the case bytes, read cyclically), and a history: 1-4 ParticleSwarm calls of 0-5 iterations with up
// to two state edits between consecutive calls. Both callbacks are logged: the domain test sees EVERY row the library looks at
// (batches of num_particles rows = the particle positions of one iteration; at a cache (re)initialisation first the current positions
// and then rows of the best-position array), the objective sees the rows the library decided to evaluate.
//
// Reference model (what the class documentation of ParticleSwarmState says, tsgParticleSwarm.hpp):
//   * each particle has a best-known position, the swarm has one ("the point with smallest observed functional"); a best is SET once
//     the particle has been evaluated at a position inside the domain, or when the user supplies it with setBestParticlePositions();
//     until then it stays in its unset state (the array keeps whatever it held: zeros after construction / clearBestParticles()).
//   * a position counts as visited when the library submitted it to the domain test as a particle position (the batches above),
//     it was inside, and it was therefore evaluated. The personal best is the visited position with the smallest value (the earliest on
//     ties: accepted by value), the swarm best the smallest over all particles.
//   * clearCache(): "certain data related to the objective function are stored in cache variables ... if a different objective function
//     [is used] the cache must be cleared": values are forgotten, positions and the set/unset status of the bests are kept; with a new
//     objective the kept best positions are re-valued and the swarm best is the smallest of them.
//   * clearBestParticles(): all bests become unset (the swarm continues from its current positions, whose last evaluation stays valid).
//   * setParticlePositions(): the particles are moved by hand, the new positions have not been evaluated.
//   * setParticleVelocities(): no effect on the tracked quantities.
//   * setBestParticlePositions(): the user supplies all bests (generated consistently: the swarm row is the best of the in-domain rows).
// The cached objective values are private; their coherence is observed through the bests reported after later iterations.
#include "common.hpp"
#include "TasmanianOptimization.hpp"

namespace vf {
namespace {
using Vec = std::vector<double>;
double sgrid(Src &s, int n, double step) { int k = s.pick(2 * n + 1); int mag = (k + 1) / 2; return ((k & 1) ? 1.0 : -1.0) * mag * step + 0.0; }

enum { D_BOX = 0, D_HALF, D_HOLE, D_ALL, D_NONE };
enum { F_SPHERE = 0, F_SHIFT, F_MULTI };
enum { E_CLEAR_CACHE = 0, E_CLEAR_BEST, E_SET_POS, E_SET_VEL, E_SET_BEST, E_SWITCH_OBJ };

struct Setup {
    size_t d = 1, P = 1; int dom = D_BOX; Vec lo, hi, ha, shift; double hb = 0, hr = 1;
    bool inside(const double *x) const {
        switch (dom) {
        case D_BOX: for (size_t j = 0; j < d; j++) if (x[j] < lo[j] || x[j] > hi[j]) return false; return true;
        case D_HALF: { double t = 0; for (size_t j = 0; j < d; j++) t += ha[j] * x[j]; return t <= hb; }
        case D_HOLE: { double t = 0; for (size_t j = 0; j < d; j++) t += x[j] * x[j]; return t >= hr * hr; }
        case D_ALL: return true;
        default: return false;
        }
    }
    double f(int obj, const double *x) const {
        double r = 0;
        switch (obj) {
        case F_SPHERE: for (size_t j = 0; j < d; j++) r += x[j] * x[j]; return r;
        case F_SHIFT: for (size_t j = 0; j < d; j++) r += (x[j] - shift[j]) * (x[j] - shift[j]); return r;
        default: for (size_t j = 0; j < d; j++) r += x[j] * x[j] + 2.0 * (1.0 - std::cos(3.0 * x[j])); return r;
        }
    }
};

struct Stream { Vec tab; size_t idx = 0; double next() { double v = tab[idx % tab.size()]; idx++; return v; } };

// callback log of one library call
struct CallLog {
    const Setup *S = nullptr; const int *obj = nullptr;
    Vec drows, frows, fvals; bool bad = false; Vec bad_row;
    void clear() { drows.clear(); frows.clear(); fvals.clear(); }
    TasDREAM::DreamDomain domain() { return [this](const Vec &x) -> bool { drows.insert(drows.end(), x.begin(), x.end()); return S->inside(x.data()); }; }
    void see(const double *x) { if (!S->inside(x) && !bad) { bad = true; bad_row.assign(x, x + S->d); } frows.insert(frows.end(), x, x + S->d); }
    TasOptimization::ObjectiveFunction batch() { return [this](const Vec &x, Vec &y) { size_t k = y.size(); for (size_t i = 0; i < k; i++) { see(&x[i * S->d]); y[i] = S->f(*obj, &x[i * S->d]); fvals.push_back(y[i]); } }; }
    TasOptimization::ObjectiveFunction single_wrapped() {
        TasOptimization::ObjectiveFunctionSingle fs = [this](const Vec &x) -> double { see(x.data()); double v = S->f(*obj, x.data()); fvals.push_back(v); return v; };
        return TasOptimization::makeObjectiveFunction((int)S->d, fs);
    }
};

struct Best { bool valid = false; Vec row; double val = 0; };
struct Visit { Vec row; double val; };

std::string rows_text(const Vec &v, size_t d) { std::string o; for (size_t i = 0; i * d < v.size(); i++) { o += "("; for (size_t j = 0; j < d; j++) { if (j) o += ","; o += decd(v[i * d + j]); } o += ")"; } return o; }
} // namespace

void check_C20(Src &s, Ctx &ctx) {
    Setup S; S.d = (size_t)(1 + s.pick(3)); S.P = (size_t)(1 + s.pick(8)); const size_t d = S.d, P = S.P;
    S.dom = s.weighted({4, 3, 2, 1, 1});
    S.lo.resize(d); S.hi.resize(d); S.ha.resize(d); S.shift.resize(d);
    if (S.dom == D_BOX) for (size_t j = 0; j < d; j++) { double m = sgrid(s, 3, 0.5), h = 0.5 * (1 + s.pick(5)); S.lo[j] = m - h; S.hi[j] = m + h; }
    if (S.dom == D_HALF) { bool nz = false; for (auto &v : S.ha) { v = sgrid(s, 2, 1.0); nz = nz || v != 0.0; } if (!nz) S.ha[0] = 1.0; S.hb = sgrid(s, 4, 0.5); }
    if (S.dom == D_HOLE) S.hr = 0.5 * (1 + s.pick(4));
    int obj = s.weighted({3, 2, 2}), alt_obj = (obj + 1 + s.pick(2)) % 3;
    for (auto &v : S.shift) v = sgrid(s, 4, 0.5);
    bool use_single = s.chance(1, 3);
    static const std::vector<double> inertias = {0.5, 1.0, 0.0, 0.9, 0.25}, coefs = {2.0, 0.0, 1.0, 0.5};
    double inertia = s.of(inertias), cog = s.of(coefs), soc = s.of(coefs);
    Stream rnd; { int lt = 3 + s.pick(14); rnd.tab.resize((size_t)lt); for (auto &v : rnd.tab) v = s.byte() / 255.0; }

    static const char *dn[] = {"box", "halfspace", "hole", "all", "nothing"}; static const char *fn[] = {"sphere", "shifted-sphere", "multi-modal"};
    { std::ostringstream o; o << "dims=" << d << " particles=" << P << " domain=" << dn[S.dom];
      if (S.dom == D_BOX) o << " lo=(" << joind(S.lo) << ") hi=(" << joind(S.hi) << ")"; if (S.dom == D_HALF) o << " a=(" << joind(S.ha) << ") b=" << S.hb; if (S.dom == D_HOLE) o << " |x|>=" << S.hr;
      o << " objective=" << fn[obj]; if (obj == F_SHIFT || alt_obj == F_SHIFT) o << " shift=(" << joind(S.shift) << ")"; o << (use_single ? " via makeObjectiveFunction(single)" : " via batch interface")
        << " inertia=" << inertia << " cognitive=" << cog << " social=" << soc << "\nrandom-table=(" << joind(rnd.tab) << ")"; ctx.log(o.str()); }
    ctx.label(std::string("dom:") + dn[S.dom]); ctx.label(std::string("obj:") + fn[obj]); ctx.label(use_single ? "objective:single-wrapper" : "objective:batch");

    auto get_rnd = [&rnd]() -> double { return rnd.next(); };
    // ---- initial state
    int init = s.pick(4);
    Vec pp(P * d), pv(P * d);
    TasOptimization::ParticleSwarmState state((int)d, (int)P);
    if (init == 0 || init == 3) {
        Vec bl(d), bu(d); for (size_t j = 0; j < d; j++) { bl[j] = sgrid(s, 3, 0.5); bu[j] = bl[j] + 0.5 * s.pick(9); }
        if (init == 0) state.initializeParticlesInsideBox(bl, bu, get_rnd); else state.initializeParticlesInsideBox(bl.data(), bu.data(), get_rnd);
        ctx.log("init: initializeParticlesInsideBox lower=(" + joind(bl) + ") upper=(" + joind(bu) + ")" + (init == 3 ? " raw-array overload" : ""));
        Vec x = state.getParticlePositions(), v = state.getParticleVelocities();
        for (size_t i = 0; i < P * d; i++) { double r = std::fabs(bu[i % d] - bl[i % d]);
            VF_REQUIRE("C20.init-box", x[i] >= bl[i % d] && x[i] <= bu[i % d] && v[i] >= -r && v[i] <= r, "initializeParticlesInsideBox: entry " << i << " position " << decd(x[i]) << " velocity " << decd(v[i]) << " outside the documented ranges [" << bl[i % d] << "," << bu[i % d] << "], [-" << r << "," << r << "]"); }
    } else {
        for (auto &v : pp) v = sgrid(s, 6, 0.5); for (auto &v : pv) v = sgrid(s, 4, 0.5);
        if (init == 1) { Vec a = pp, b = pv; state = TasOptimization::ParticleSwarmState((int)d, std::move(a), std::move(b)); ctx.log("init: constructor with positions and velocities"); }
        else { if (s.chance(1, 2)) { state.setParticlePositions(pp); state.setParticleVelocities(pv); } else { state.setParticlePositions(pp.data()); state.setParticleVelocities(pv.data()); } ctx.log("init: setParticlePositions / setParticleVelocities on an empty state"); }
    }
    static const char *in[] = {"init:box-vector", "init:constructor", "init:setters", "init:box-raw"}; ctx.label(in[init]);
    ctx.log("positions=" + rows_text(state.getParticlePositions(), d) + " velocities=" + rows_text(state.getParticleVelocities(), d));

    // ---- model
    std::vector<char> cur_known(P, 0), cur_inside(P, 0); Vec cur_val(P, 0.0);
    std::vector<Best> pb(P); Best sb;
    bool have_last = false; double last_sb = 0;   // f(swarm best) after the previous call (while no edit redefines the bests)
    bool model_cache_init = false;
    auto rowp = [&](const Vec &flat, size_t i) { return &flat[i * d]; };
    auto eq = [&](const double *a, const double *b) { return std::memcmp(a, b, d * sizeof(double)) == 0; };

    CallLog lg, lg2; lg.S = lg2.S = &S; lg.obj = lg2.obj = &obj;
    static const int ncall_opts[] = {2, 3, 4, 1}; int ncalls = ncall_opts[s.weighted({3, 2, 1, 1})];
    bool any_outside = false, any_edit = false, any_split = false; int part_outside_init = -1;

    for (int call = 0; call < ncalls; call++) {
        // ---- edits between calls
        if (call > 0) {
            static const int nedit_opts[] = {1, 0, 2}; int nedits = nedit_opts[s.weighted({3, 3, 2})];
            std::vector<int> plan;
            for (int q = 0; q < nedits; q++) plan.push_back(s.weighted({2, 2, 2, 1, 2, 1}));
            auto has = [&](int k) { return std::find(plan.begin(), plan.end(), k) != plan.end(); };
            // known-finding classes are avoided by construction (only when listed as known)
            bool clears = has(E_CLEAR_CACHE) || has(E_SWITCH_OBJ);
            if (has(E_SWITCH_OBJ) && ctx.excl("C20-objective-switch-swarm-best-not-reelected")) { std::replace(plan.begin(), plan.end(), (int)E_SWITCH_OBJ, (int)E_CLEAR_CACHE); }
            if (has(E_CLEAR_BEST) && !clears && model_cache_init && ctx.excl("C20-clearBestParticles-keeps-best-cache")) { plan.push_back(E_CLEAR_CACHE); clears = true; }
            if (has(E_SET_BEST) && !clears && model_cache_init && ctx.excl("C20-setBestParticlePositions-keeps-stale-cache")) { plan.push_back(E_CLEAR_CACHE); clears = true; }
            if (has(E_SET_POS) && !clears && model_cache_init && ctx.excl("C20-setParticlePositions-keeps-stale-cache"))   /* the stale values survive until the next evaluation, also across later edit rounds */ { plan.push_back(E_CLEAR_CACHE); clears = true; }
            if (clears && !has(E_CLEAR_BEST) && !has(E_SET_BEST) && state.isBestPositionInitialized()) {
                Vec B = state.getBestParticlePositions(); bool revive = false;
                for (size_t i = 0; i <= P; i++) { bool valid = i < P ? pb[i].valid : sb.valid; if (!valid && S.inside(rowp(B, i))) revive = true; }
                if (revive && ctx.excl("C20-clearCache-revives-unset-best")) plan.clear();
            }
            for (int e : plan) {
                any_edit = true;
                switch (e) {
                case E_CLEAR_CACHE: state.clearCache(); ctx.log("edit: clearCache"); ctx.label("edit:clearCache");
                    std::fill(cur_known.begin(), cur_known.end(), 0); model_cache_init = false; break;
                case E_CLEAR_BEST: state.clearBestParticles(); ctx.log("edit: clearBestParticles"); ctx.label("edit:clearBestParticles");
                    for (auto &b : pb) b.valid = false; sb.valid = false; have_last = false; break;
                case E_SET_POS: { Vec x(P * d); for (auto &v : x) v = sgrid(s, 6, 0.5); int how = s.pick(3);
                    if (how == 0) state.setParticlePositions(x); else if (how == 1) state.setParticlePositions(x.data()); else { Vec t = x; state.setParticlePositions(std::move(t)); }
                    ctx.log("edit: setParticlePositions " + rows_text(x, d)); ctx.label("edit:setParticlePositions"); std::fill(cur_known.begin(), cur_known.end(), 0); break; }
                case E_SET_VEL: { Vec v(P * d); for (auto &t : v) t = sgrid(s, 4, 0.5); int how = s.pick(3);
                    if (how == 0) state.setParticleVelocities(v); else if (how == 1) state.setParticleVelocities(v.data()); else { Vec t = v; state.setParticleVelocities(std::move(t)); }
                    ctx.log("edit: setParticleVelocities " + rows_text(v, d)); ctx.label("edit:setParticleVelocities"); break; }
                case E_SET_BEST: { Vec b((P + 1) * d); for (auto &v : b) v = sgrid(s, 6, 0.5);
                    // consistent input: the swarm row is the best of the in-domain particle rows (first on ties); without any, the generated row is kept
                    long arg = -1; double bv = 0; for (size_t i = 0; i < P; i++) if (S.inside(rowp(b, i))) { double v = S.f(obj, rowp(b, i)); if (arg < 0 || v < bv) { arg = (long)i; bv = v; } }
                    if (arg >= 0) std::copy_n(rowp(b, (size_t)arg), d, b.begin() + (long)(P * d));
                    int how = s.pick(3);
                    if (how == 0) state.setBestParticlePositions(b); else if (how == 1) state.setBestParticlePositions(b.data()); else { Vec t = b; state.setBestParticlePositions(std::move(t)); }
                    ctx.log("edit: setBestParticlePositions " + rows_text(b, d)); ctx.label("edit:setBestParticlePositions");
                    for (size_t i = 0; i <= P; i++) { Best &t = i < P ? pb[i] : sb; t.valid = S.inside(rowp(b, i)); t.row.assign(rowp(b, i), rowp(b, i) + d); t.val = t.valid ? S.f(obj, rowp(b, i)) : 0.0; }
                    have_last = false; break; }
                default: { obj = alt_obj; alt_obj = (obj + 1) % 3; state.clearCache(); ctx.log(std::string("edit: switch objective to ") + fn[obj] + " + clearCache"); ctx.label("edit:switch-objective");
                    std::fill(cur_known.begin(), cur_known.end(), 0); model_cache_init = false; have_last = false;
                    // kept best positions are re-valued; the swarm best is the smallest of them
                    for (auto &b : pb) if (b.valid) b.val = S.f(obj, b.row.data()); if (sb.valid) sb.val = S.f(obj, sb.row.data());
                    for (auto &b : pb) if (b.valid && (!sb.valid || b.val < sb.val)) sb = b;
                    break; }
                }
            }
        }
        // ---- the call
        int n = s.pick(6);
        bool split = n >= 1 && s.chance(1, 2); int na = split ? s.pick(n + 1) : 0;
        const Vec Xb = state.getParticlePositions(), Bb = state.getBestParticlePositions();
        TasOptimization::ParticleSwarmState twin(state); Stream rnd2 = rnd;
        lg.clear();
        TasOptimization::ParticleSwarm(use_single ? lg.single_wrapped() : lg.batch(), lg.domain(), inertia, cog, soc, n, state, get_rnd);
        model_cache_init = true;
        { std::ostringstream o; o << "call " << call << ": " << n << " iterations"; if (split) o << " (twin: " << na << "+" << (n - na) << ")"; ctx.log(o.str()); }
        VF_REQUIRE("C20.outside-domain-evaluated", !lg.bad, "call " << call << ": the objective was evaluated at (" << joind(lg.bad_row) << ") which is outside the domain");
        ctx.count("objective-rows", (long)lg.fvals.size()); ctx.count("domain-rows", (long)(lg.drows.size() / d));
        // ---- interpret the domain log: [current positions [best rows]] then n batches of P rows
        size_t total = lg.drows.size() / d, need = (size_t)n * P;
        VF_REQUIRE("C20.protocol", total >= need, "call " << call << ": " << total << " rows were submitted to the domain test, fewer than iterations x particles = " << need << " (the harness cannot follow the particles)");
        size_t prefix = total - need; bool pos_eval = false;
        if (prefix > 0) {
            VF_REQUIRE("C20.protocol", prefix >= P && prefix <= 2 * P + 1, "call " << call << ": " << prefix << " rows precede the iteration batches; expected 0, the " << P << " current positions, or the positions plus rows of the best-position array");
            for (size_t i = 0; i < P; i++) VF_REQUIRE("C20.protocol", eq(rowp(lg.drows, i), rowp(Xb, i)), "call " << call << ": row " << i << " of the initial domain tests is not the current position of particle " << i);
            size_t bi = 0;
            for (size_t q = P; q < prefix; q++) { while (bi <= P && !eq(rowp(lg.drows, q), rowp(Bb, bi))) bi++; VF_REQUIRE("C20.protocol", bi <= P, "call " << call << ": initial domain-test row " << q << " is neither a current position nor a row of the best-position array"); bi++; }
            pos_eval = true;
        }
        // ---- model pass
        std::vector<std::vector<Visit>> vis(P); std::vector<Visit> vis_sb;
        for (size_t i = 0; i < P; i++) if (pb[i].valid) vis[i].push_back({pb[i].row, pb[i].val});
        if (sb.valid) vis_sb.push_back({sb.row, sb.val});
        auto consider = [&](size_t i, const double *r, double val) {
            vis[i].push_back({Vec(r, r + d), val});
            if (!pb[i].valid || val < pb[i].val) { pb[i].valid = true; pb[i].row.assign(r, r + d); pb[i].val = val; if (!sb.valid || val < sb.val) sb = pb[i]; }
        };
        int outside_now = 0;
        if (pos_eval) for (size_t i = 0; i < P; i++) { cur_known[i] = 1; cur_inside[i] = S.inside(rowp(Xb, i)); cur_val[i] = cur_inside[i] ? S.f(obj, rowp(Xb, i)) : 0.0; if (!cur_inside[i]) outside_now++; }
        if (call == 0) part_outside_init = outside_now;
        for (size_t i = 0; i < P; i++) if (cur_known[i] && cur_inside[i]) consider(i, rowp(Xb, i), cur_val[i]);
        for (int t = 0; t < n; t++) for (size_t i = 0; i < P; i++) {
            const double *r = rowp(lg.drows, prefix + (size_t)t * P + i);
            cur_known[i] = 1; cur_inside[i] = S.inside(r); cur_val[i] = cur_inside[i] ? S.f(obj, r) : 0.0;
            if (cur_inside[i]) consider(i, r, cur_val[i]); else outside_now++;
        }
        if (outside_now > 0) any_outside = true;
        // ---- compare with the state
        const Vec Xn = state.getParticlePositions(), Vn = state.getParticleVelocities(), Bn = state.getBestParticlePositions();
        if (n > 0) for (size_t i = 0; i < P; i++) VF_REQUIRE("C20.position-not-evaluated", eq(rowp(Xn, i), rowp(lg.drows, prefix + (size_t)(n - 1) * P + i)),
            "call " << call << ": particle " << i << " ends at " << rows_text(Vec(rowp(Xn, i), rowp(Xn, i) + d), d) << " which is not the row submitted to the domain test in the last iteration");
        for (size_t i = 0; i <= P; i++) {
            Best &m = i < P ? pb[i] : sb; const double *b = rowp(Bn, i);
            std::string who = i < P ? "particle " + std::to_string(i) : std::string("the swarm");
            std::vector<Visit> all; if (i == P) { all = vis_sb; for (auto &v : vis) all.insert(all.end(), v.begin(), v.end()); }
            const std::vector<Visit> &mine = i < P ? vis[i] : all;
            ctx.count("best-checks");
            if (!m.valid) {
                VF_REQUIRE("C20.best-not-visited", eq(b, rowp(Bb, i)), "call " << call << ": the best-known position of " << who << " changed to " << rows_text(Vec(b, b + d), d) << " although " << (i < P ? "the particle was" : "no particle was") << " never evaluated inside the domain");
                continue;
            }
            if (eq(b, m.row.data())) continue;
            const Visit *hit = nullptr; for (auto &v : mine) if (eq(b, v.row.data())) { hit = &v; break; }
            std::ostringstream why; why << "call " << call << ": best-known position of " << who << " is " << rows_text(Vec(b, b + d), d);
            if (S.inside(b)) why << " with f=" << decd(S.f(obj, b)); else why << " (outside the domain)";
            why << "; the best in-domain evaluation " << (i < P ? "of this particle" : "of the swarm") << " since the last reset is " << rows_text(m.row, d) << " with f=" << decd(m.val) << " (" << mine.size() << " in-domain evaluations)";
            VF_REQUIRE(i < P ? "C20.best-not-visited" : "C20.swarm-best-not-visited", hit != nullptr, why.str() << "; the reported position was never evaluated inside the domain as a position of " << (i < P ? "this particle" : "a particle"));
            VF_REQUIRE(i < P ? "C20.best-not-minimal" : "C20.swarm-best-not-minimal", hit->val == m.val, why.str());
            m.row.assign(b, b + d);   // tie in value: follow the library's choice
        }
        if (sb.valid) {
            double fsb = S.f(obj, rowp(Bn, P));
            if (have_last) VF_REQUIRE("C20.swarm-best-increased", fsb <= last_sb, "call " << call << ": f(swarm best)=" << decd(fsb) << " after the call, " << decd(last_sb) << " before it");
            have_last = true; last_sb = fsb; ctx.count("monotone-checks");
        }
        { std::ostringstream o; o << "  positions=" << rows_text(Xn, d) << " best=" << rows_text(Bn, d) << " evaluated " << lg.fvals.size() << "/" << total << " rows"; if (sb.valid) o << " f(swarm best)=" << decd(last_sb); else o << " swarm best unset"; ctx.log(o.str()); }
        // ---- n then m iterations == n+m iterations (same random stream)
        if (split) {
            any_split = true;
            auto get_rnd2 = [&rnd2]() -> double { return rnd2.next(); };
            lg2.clear();
            TasOptimization::ParticleSwarm(use_single ? lg2.single_wrapped() : lg2.batch(), lg2.domain(), inertia, cog, soc, na, twin, get_rnd2);
            TasOptimization::ParticleSwarm(use_single ? lg2.single_wrapped() : lg2.batch(), lg2.domain(), inertia, cog, soc, n - na, twin, get_rnd2);
            VF_REQUIRE("C20.outside-domain-evaluated", !lg2.bad, "call " << call << " (split run): the objective was evaluated at (" << joind(lg2.bad_row) << ") which is outside the domain");
            const Vec X2 = twin.getParticlePositions(), V2 = twin.getParticleVelocities(), B2 = twin.getBestParticlePositions();
            auto same = [](const Vec &a, const Vec &b) { return a.size() == b.size() && std::memcmp(a.data(), b.data(), a.size() * sizeof(double)) == 0; };
            VF_REQUIRE("C20.split-equivalence", same(Xn, X2), "call " << call << ": positions after " << na << "+" << (n - na) << " iterations " << rows_text(X2, d) << " differ from " << n << " iterations " << rows_text(Xn, d));
            VF_REQUIRE("C20.split-equivalence", same(Vn, V2), "call " << call << ": velocities after " << na << "+" << (n - na) << " iterations " << rows_text(V2, d) << " differ from " << n << " iterations " << rows_text(Vn, d));
            VF_REQUIRE("C20.split-equivalence", same(Bn, B2), "call " << call << ": best positions after " << na << "+" << (n - na) << " iterations " << rows_text(B2, d) << " differ from " << n << " iterations " << rows_text(Bn, d));
            VF_REQUIRE("C20.split-equivalence", rnd.idx == rnd2.idx, "call " << call << ": " << na << "+" << (n - na) << " iterations consumed " << rnd2.idx << " random numbers, " << n << " iterations consumed " << rnd.idx);
            ctx.count("split-checks");
        }
    }
    if (any_edit) ctx.label("edits"); if (any_split) ctx.label("split-checked");
    if (part_outside_init == (int)P) ctx.label("init:all-outside"); else if (part_outside_init > 0) ctx.label("init:partly-outside");
    if (!sb.valid) ctx.label("end:swarm-best-unset");
    ctx.label("calls:" + std::to_string(ncalls));
    ctx.nontrivial = any_outside && ncalls >= 2;
    if (ctx.nontrivial) ctx.label("nt:outside+multi-call");
}
VF_REGISTER(C20, check_C20, "swarm (1-8 particles x 1-3 dims; initializeParticlesInsideBox with the scripted stream, constructor, or setters) x domain (box, half-space, hole around the origin, everything, nothing) x objective "
            "(sphere, shifted sphere, multi-modal; batch interface or makeObjectiveFunction wrapper) x inertia/cognitive/social coefficients x scripted random table x history of 1-4 ParticleSwarm calls (0-5 iterations each, "
            "optionally compared with the same call split in two) with 0-2 state edits between calls (clearCache, clearBestParticles, setParticlePositions, setParticleVelocities, setBestParticlePositions, objective switch + clearCache); "
            "non-trivial = at least one particle is outside the domain at some evaluation (initially or by leaving) and the history has >= 2 calls");

} // namespace vf
