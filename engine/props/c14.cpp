// C14 - misuse is reported by the documented exceptions and never corrupts a grid.
// Generator: grid state from a history (empty / fresh / loaded / pending refinement / active construction / zero outputs, every family)
// x one entry of a misuse catalogue transcribed from the \throws clauses of TasmanianSparseGrid.hpp (see DESIGN.md Appendix B)
// x generated offending arguments; file-format clauses mutate the documented header / trailer fields of a valid file of the state itself.
// Oracle: the call throws std::invalid_argument or std::runtime_error (no other type, no sanitizer report, no hang); afterwards the
// object is empty (only after a failed make/read) or has bitwise the digest it had before; a short continuation then behaves exactly as on
// a pristine copy of the pre-call state.
#include "history.hpp"
#include "observe.hpp"

namespace vf {
namespace {

enum Kind { K_OTHER, K_MAKE_OR_READ };
struct Entry { const char *name; Kind kind; std::function<bool(GridState &, Src &, std::string &)> run; };   // run returns false when not applicable; must throw otherwise

std::string write_file(const std::string &name, const std::string &content) { std::string p = cfg().workdir + "/" + name; std::ofstream f(p, std::ios::binary); f << content; return p; }
std::string grid_bytes(const TasmanianSparseGrid &g, bool binary) { std::ostringstream o; g.write(o, binary); return o.str(); }
// a small valid grid used as the content of files when the state itself is empty
void donor(TasmanianSparseGrid &g, int v) { if (v % 3 == 0) g.makeGlobalGrid(2, 1, 2, type_level, rule_clenshawcurtis); else if (v % 3 == 1) g.makeLocalPolynomialGrid(2, 1, 2); else g.makeSequenceGrid(1, 2, 3, type_level, rule_rleja);
    std::vector<double> v0((size_t)g.getNumNeeded() * (size_t)g.getNumOutputs(), 0.25); g.loadNeededValues(v0); if (v % 2) g.setDomainTransform(std::vector<double>((size_t)g.getNumDimensions(), 0.0), std::vector<double>((size_t)g.getNumDimensions(), 2.0)); }
bool replace_first(std::string &s, const std::string &a, const std::string &b) { size_t p = s.find(a); if (p == std::string::npos) return false; s.replace(p, a.size(), b); return true; }

std::vector<int> wrong_size_vec(Src &s, int right) { int n = right + 1 + s.pick(2); if (s.pick(2) && right > 1) n = right - 1; return std::vector<int>((size_t)n, 1); }

const std::vector<Entry> &catalogue() {
    static std::vector<Entry> C;
    if (!C.empty()) return C;
    auto any = [](GridState &) { return true; };
    (void)any;
    // ---- A. make* with invalid arguments on an object in any state
    C.push_back({"makeGlobalGrid(dimensions<1)", K_MAKE_OR_READ, [](GridState &st, Src &s, std::string &d) { int dm = -s.pick(2); d = "dims=" + std::to_string(dm); st.g.makeGlobalGrid(dm, 1, 2, type_level, rule_clenshawcurtis); return true; }});
    C.push_back({"makeGlobalGrid(outputs<0)", K_MAKE_OR_READ, [](GridState &st, Src &, std::string &) { st.g.makeGlobalGrid(2, -1, 2, type_level, rule_clenshawcurtis); return true; }});
    C.push_back({"makeGlobalGrid(depth<0)", K_MAKE_OR_READ, [](GridState &st, Src &, std::string &) { st.g.makeGlobalGrid(2, 1, -1, type_level, rule_clenshawcurtis); return true; }});
    C.push_back({"makeGlobalGrid(non-global rule)", K_MAKE_OR_READ, [](GridState &st, Src &s, std::string &d) { static const TypeOneDRule r[] = {rule_localp, rule_wavelet, rule_fourier, rule_none, rule_semilocalp}; auto rr = r[s.pick(5)]; d = IO::getRuleString(rr); st.g.makeGlobalGrid(2, 1, 2, type_level, rr); return true; }});
    C.push_back({"makeGlobalGrid(anisotropic_weights of wrong size)", K_MAKE_OR_READ, [](GridState &st, Src &s, std::string &d) { TypeDepth t = s.of(ALL_TYPES); int right = is_curved(t) ? 6 : 3; auto w = wrong_size_vec(s, right); d = std::string(type_name(t)) + " size " + std::to_string(w.size()); st.g.makeGlobalGrid(3, 1, 2, t, rule_leja, w); return true; }});
    C.push_back({"makeGlobalGrid(level_limits of wrong size)", K_MAKE_OR_READ, [](GridState &st, Src &s, std::string &) { st.g.makeGlobalGrid(2, 1, 2, type_level, rule_leja, std::vector<int>(), 0.0, 0.0, nullptr, wrong_size_vec(s, 2)); return true; }});
    C.push_back({"makeGlobalGrid(custom rule without file name)", K_MAKE_OR_READ, [](GridState &st, Src &, std::string &) { st.g.makeGlobalGrid(2, 1, 2, type_level, rule_customtabulated); return true; }});
    C.push_back({"makeGlobalGrid(custom rule, missing file)", K_MAKE_OR_READ, [](GridState &st, Src &, std::string &) { std::string p = cfg().workdir + "/does-not-exist.table"; st.g.makeGlobalGrid(2, 1, 2, type_level, rule_customtabulated, std::vector<int>(), 0.0, 0.0, p.c_str()); return true; }});
    C.push_back({"makeGlobalGrid(custom rule, wrong file header)", K_MAKE_OR_READ, [](GridState &st, Src &s, std::string &d) { bool l1 = s.pick(2); d = l1 ? "line 1" : "line 2";
        std::string p = write_file("bad.table", l1 ? "descripton: x\nlevels: 1\n1 1\n2.0 0.0\n" : "description: x\nlevel: 1\n1 1\n2.0 0.0\n"); st.g.makeGlobalGrid(1, 1, 0, type_level, rule_customtabulated, std::vector<int>(), 0.0, 0.0, p.c_str()); return true; }});
    C.push_back({"makeGlobalGrid(custom table shorter than the depth)", K_MAKE_OR_READ, [](GridState &st, Src &s, std::string &d) { int depth = 3 + s.pick(4); d = "depth " + std::to_string(depth);
        std::string p = write_file("short.table", "description: two levels\nlevels: 2\n1 1\n2 3\n2.0 0.0\n1.0 -0.57735026918962573\n1.0 0.57735026918962573\n"); st.g.makeGlobalGrid(1 + s.pick(2), 1, depth, type_level, rule_customtabulated, std::vector<int>(), 0.0, 0.0, p.c_str()); return true; }});
    C.push_back({"makeSequenceGrid(invalid argument)", K_MAKE_OR_READ, [](GridState &st, Src &s, std::string &d) { int v = s.pick(6); d = "variant " + std::to_string(v);
        switch (v) { case 0: st.g.makeSequenceGrid(2, 1, 2, type_level, rule_clenshawcurtis); break; case 1: st.g.makeSequenceGrid(0, 1, 2, type_level, rule_leja); break; case 2: st.g.makeSequenceGrid(2, -2, 2, type_level, rule_leja); break;
            case 3: st.g.makeSequenceGrid(2, 1, -3, type_level, rule_leja); break; case 4: st.g.makeSequenceGrid(2, 1, 2, type_level, rule_leja, wrong_size_vec(s, 2)); break; default: st.g.makeSequenceGrid(2, 1, 2, type_level, rule_leja, std::vector<int>(), wrong_size_vec(s, 2)); } return true; }});
    C.push_back({"makeLocalPolynomialGrid(invalid argument)", K_MAKE_OR_READ, [](GridState &st, Src &s, std::string &d) { int v = s.pick(6); d = "variant " + std::to_string(v);
        switch (v) { case 0: st.g.makeLocalPolynomialGrid(2, 1, 2, -2, rule_localp); break; case 1: st.g.makeLocalPolynomialGrid(2, 1, 2, 1, rule_leja); break; case 2: st.g.makeLocalPolynomialGrid(0, 1, 2, 1, rule_localp); break;
            case 3: st.g.makeLocalPolynomialGrid(2, -1, 2, 1, rule_localp); break; case 4: st.g.makeLocalPolynomialGrid(2, 1, -1, 1, rule_localp); break; default: st.g.makeLocalPolynomialGrid(2, 1, 2, 1, rule_localp, wrong_size_vec(s, 2)); } return true; }});
    C.push_back({"makeWaveletGrid(invalid argument)", K_MAKE_OR_READ, [](GridState &st, Src &s, std::string &d) { int v = s.pick(5); d = "variant " + std::to_string(v);
        switch (v) { case 0: { static const int o[] = {2, 0, 5, -1}; st.g.makeWaveletGrid(2, 1, 2, o[s.pick(4)]); break; } case 1: st.g.makeWaveletGrid(0, 1, 2, 1); break; case 2: st.g.makeWaveletGrid(2, -1, 2, 1); break;
            case 3: st.g.makeWaveletGrid(2, 1, -1, 1); break; default: st.g.makeWaveletGrid(2, 1, 2, 1, wrong_size_vec(s, 2)); } return true; }});
    C.push_back({"makeFourierGrid(invalid argument)", K_MAKE_OR_READ, [](GridState &st, Src &s, std::string &d) { int v = s.pick(5); d = "variant " + std::to_string(v);
        switch (v) { case 0: st.g.makeFourierGrid(0, 1, 2, type_level, std::vector<int>(), std::vector<int>()); break; case 1: st.g.makeFourierGrid(2, -1, 2, type_level, std::vector<int>(), std::vector<int>()); break; case 2: st.g.makeFourierGrid(2, 1, -1, type_level, std::vector<int>(), std::vector<int>()); break;
            case 3: st.g.makeFourierGrid(2, 1, 2, type_level, wrong_size_vec(s, 2), std::vector<int>()); break; default: st.g.makeFourierGrid(2, 1, 2, type_level, std::vector<int>(), wrong_size_vec(s, 2)); } return true; }});
    // ---- B. update
    C.push_back({"updateGrid on an empty grid", K_OTHER, [](GridState &st, Src &s, std::string &) { if (!st.g.empty()) return false; if (s.pick(2)) st.g.updateGrid(2, type_level, std::vector<int>()); else st.g.updateGlobalGrid(2, type_level, (const int *)nullptr); return true; }});
    C.push_back({"updateGrid on a local grid", K_OTHER, [](GridState &st, Src &, std::string &) { if (!(st.g.isLocalPolynomial() || st.g.isWavelet())) return false; st.g.updateGrid(2, type_level, std::vector<int>()); return true; }});
    C.push_back({"updateGrid(invalid argument)", K_OTHER, [](GridState &st, Src &s, std::string &d) { if (st.g.empty() || st.g.isLocalPolynomial() || st.g.isWavelet() || st.constructing) return false; int dm = st.g.getNumDimensions(); int v = s.pick(3); d = "variant " + std::to_string(v);
        if (v == 0) st.g.updateGrid(-1, type_level, std::vector<int>()); else if (v == 1) { TypeDepth t = s.of(ALL_TYPES); st.g.updateGrid(2, t, wrong_size_vec(s, is_curved(t) ? 2 * dm : dm)); } else st.g.updateGrid(2, type_level, std::vector<int>(), wrong_size_vec(s, dm)); return true; }});
    // ---- C. points of the wrong size
    C.push_back({"getInterpolationWeights(x of wrong size)", K_OTHER, [](GridState &st, Src &s, std::string &) { if (st.g.empty() || st.g.getNumPoints() == 0) return false; std::vector<double> x((size_t)(st.g.getNumDimensions() + 1 + s.pick(2)), 0.1), w; if (s.pick(2)) st.g.getInterpolationWeights(x, w); else (void)st.g.getInterpolationWeights(x); return true; }});
    C.push_back({"getDifferentiationWeights(x of wrong size)", K_OTHER, [](GridState &st, Src &s, std::string &) { if (st.g.empty() || st.g.getNumPoints() == 0) return false; std::vector<double> x((size_t)(st.g.getNumDimensions() + 1 + s.pick(2)), 0.1), w; if (s.pick(2)) st.g.getDifferentiationWeights(x, w); else (void)st.g.getDifferentiationWeights(x); return true; }});
    C.push_back({"evaluate(x of wrong size)", K_OTHER, [](GridState &st, Src &s, std::string &) { if (st.g.empty() || st.g.getNumLoaded() == 0) return false; std::vector<double> x((size_t)(st.g.getNumDimensions() + 1 + s.pick(2)), 0.1), y; if (st.g.getNumDimensions() > 1 && s.pick(2)) x.resize((size_t)st.g.getNumDimensions() - 1); st.g.evaluate(x, y); return true; }});
    // ---- D. loadNeededValues
    C.push_back({"loadNeededValues(vector of wrong size)", K_OTHER, [](GridState &st, Src &s, std::string &d) { if (st.g.empty() || st.constructing || st.g.getNumOutputs() == 0 || st.g.getNumPoints() == 0) return false; size_t right = (size_t)(st.g.getNumNeeded() ? st.g.getNumNeeded() : st.g.getNumPoints()) * (size_t)st.g.getNumOutputs();
        size_t n; int v = s.pick(3); if (v == 0) n = right + 1; else if (v == 1) n = right - 1; else { n = (size_t)st.g.getNumLoaded() * (size_t)st.g.getNumOutputs(); if (n == right) n = right + (size_t)st.g.getNumOutputs(); } d = std::to_string(n) + " instead of " + std::to_string(right); st.g.loadNeededValues(std::vector<double>(n, 1.0)); return true; }});
    // ---- E. transforms
    C.push_back({"setDomainTransform on an empty grid", K_OTHER, [](GridState &st, Src &s, std::string &) { if (!st.g.empty()) return false; if (s.pick(2)) st.g.setDomainTransform(std::vector<double>{0.0}, std::vector<double>{1.0}); else { double a = 0, b = 1; st.g.setDomainTransform(&a, &b); } return true; }});
    C.push_back({"setDomainTransform(a or b of wrong size)", K_OTHER, [](GridState &st, Src &s, std::string &d) { if (st.g.empty()) return false; size_t dm = (size_t)st.g.getNumDimensions(); bool wa = s.pick(2); d = wa ? "a" : "b"; st.g.setDomainTransform(std::vector<double>(wa ? dm + 1 : dm, 0.0), std::vector<double>(wa ? dm : dm + 1, 1.0)); return true; }});
    C.push_back({"getDomainTransform(arrays) without a transform", K_OTHER, [](GridState &st, Src &, std::string &) { if (!st.g.empty() && st.g.isSetDomainTransfrom()) return false; double a[8], b[8]; st.g.getDomainTransform(a, b); return true; }});
    // ---- F/G. anisotropic refinement and coefficients
    C.push_back({"setAnisotropicRefinement(violated clause)", K_OTHER, [](GridState &st, Src &s, std::string &d) { auto &g = st.g; int outs = g.getNumOutputs();
        if (st.constructing) { d = "during construction"; g.setAnisotropicRefinement(type_level, 1, 0, std::vector<int>()); return true; }
        if (g.empty()) { d = "empty grid"; if (s.pick(2)) g.setAnisotropicRefinement(type_level, 1, 0, std::vector<int>()); else g.setAnisotropicRefinement(type_level, 1, 0, (const int *)nullptr); return true; }
        if (outs == 0) { d = "no outputs"; g.setAnisotropicRefinement(type_level, 1, 0, std::vector<int>()); return true; }
        if (g.getNumLoaded() == 0) { d = "no loaded values"; g.setAnisotropicRefinement(type_level, 1, 0, std::vector<int>()); return true; }
        if (g.isLocalPolynomial() || g.isWavelet()) { d = "local grid"; g.setAnisotropicRefinement(type_level, 1, 0, std::vector<int>()); return true; }
        if (g.isGlobal() && OneDimensionalMeta::isNonNested(g.getRule())) { d = "non-nested rule"; g.setAnisotropicRefinement(type_level, 1, 0, std::vector<int>()); return true; }
        int v = s.pick(3); if (v == 0) { int mg = -s.pick(3); d = "min_growth " + std::to_string(mg); g.setAnisotropicRefinement(type_iptotal, mg, 0, std::vector<int>()); }
        else if (v == 1) { int o = s.pick(2) ? outs + s.pick(2) : -2 - s.pick(2); if (g.isGlobal() && s.pick(2)) o = -1;   // documented: Global grids require a specific output
                           d = "output " + std::to_string(o); g.setAnisotropicRefinement(type_iptotal, 1, o, std::vector<int>()); }
        else { d = "limits size"; g.setAnisotropicRefinement(type_iptotal, 1, 0, wrong_size_vec(s, g.getNumDimensions())); } return true; }});
    C.push_back({"estimateAnisotropicCoefficients(violated clause)", K_OTHER, [](GridState &st, Src &s, std::string &d) { auto &g = st.g; int outs = g.getNumOutputs();
        if (g.empty()) d = "empty grid"; else if (outs == 0) d = "no outputs"; else if (g.getNumLoaded() == 0) d = "no values"; else if (g.isLocalPolynomial() || g.isWavelet()) d = "local grid"; else if (g.isGlobal() && OneDimensionalMeta::isNonNested(g.getRule())) d = "non-nested";
        else { int o = s.pick(2) ? outs + s.pick(2) : -2; if (g.isGlobal() && s.pick(2)) o = -1; d = "output " + std::to_string(o); (void)g.estimateAnisotropicCoefficients(type_iptotal, o); return true; }
        (void)g.estimateAnisotropicCoefficients(type_iptotal, 0); return true; }});
    // ---- H/I. surplus refinement
    C.push_back({"setSurplusRefinement(tolerance, output)(violated clause)", K_OTHER, [](GridState &st, Src &s, std::string &d) { auto &g = st.g; int outs = g.getNumOutputs();
        if (st.constructing) d = "during construction"; else if (g.empty()) d = "empty grid"; else if (outs == 0) d = "no outputs"; else if (g.getNumLoaded() == 0) d = "no values";
        else if (g.isLocalPolynomial() || g.isWavelet() || g.isFourier()) d = "wrong family"; else if (g.isGlobal() && !OneDimensionalMeta::isSequence(g.getRule())) d = "global grid with a non-sequence rule";
        else { int v = s.pick(3); if (v == 0) { int o = s.pick(2) ? outs + s.pick(2) : -2; d = "output " + std::to_string(o); g.setSurplusRefinement(0.01, o, std::vector<int>()); } else if (v == 1) { d = "negative tolerance"; g.setSurplusRefinement(-0.5, 0, std::vector<int>()); }
               else { d = "limits size"; g.setSurplusRefinement(0.01, 0, wrong_size_vec(s, g.getNumDimensions())); } return true; }
        if (g.empty() && s.pick(2)) g.setSurplusRefinement(0.01, 0, (const int *)nullptr); else g.setSurplusRefinement(0.01, 0, std::vector<int>()); return true; }});
    C.push_back({"setSurplusRefinement(tolerance, criteria, ...)(violated clause)", K_OTHER, [](GridState &st, Src &s, std::string &d) { auto &g = st.g; int outs = g.getNumOutputs();
        if (st.constructing) d = "during construction"; else if (g.empty()) d = "empty grid"; else if (outs == 0) d = "no outputs"; else if (g.getNumLoaded() == 0) d = "no values"; else if (g.isFourier()) d = "fourier grid";
        else { int v = s.pick(4); if (g.isGlobal() && v == 0) v = 1;
               if (v == 0) { int o = s.pick(2) ? outs + s.pick(2) : -2; d = "output " + std::to_string(o); g.setSurplusRefinement(0.01, refine_classic, o, std::vector<int>()); }
               else if (v == 1) { d = "negative tolerance"; if (g.isGlobal() && !OneDimensionalMeta::isSequence(g.getRule())) return false; g.setSurplusRefinement(-1.0, refine_classic, 0, std::vector<int>()); }
               else if (v == 2) { d = "limits size"; g.setSurplusRefinement(0.01, refine_classic, 0, wrong_size_vec(s, g.getNumDimensions())); }
               else { if (!(g.isLocalPolynomial())) return false; size_t right = (size_t)g.getNumLoaded(); size_t n = s.pick(2) ? right + 1 : right * (size_t)std::max(outs, 2) + 1; d = "scale size " + std::to_string(n); g.setSurplusRefinement(0.01, refine_classic, 0, std::vector<int>(), std::vector<double>(n, 1.0)); } return true; }
        if (s.pick(2)) g.setSurplusRefinement(0.01, refine_classic, 0, std::vector<int>()); else g.setSurplusRefinement(0.01, refine_classic, 0, (const int *)nullptr, nullptr); return true; }});
    // ---- J/K. construction
    C.push_back({"getCandidateConstructionPoints(violated clause)", K_OTHER, [](GridState &st, Src &s, std::string &d) { auto &g = st.g; if (g.empty()) return false; int dm = g.getNumDimensions(), outs = g.getNumOutputs(); bool local = g.isLocalPolynomial() || g.isWavelet(); int v = s.pick(3);
        if (!st.constructing) { d = "before beginConstruction, overload " + std::to_string(v); if (v == 0) (void)g.getCandidateConstructionPoints(type_level, std::vector<int>((size_t)dm, 1)); else if (v == 1) (void)g.getCandidateConstructionPoints(type_level, 0); else (void)g.getCandidateConstructionPoints(0.01, refine_classic, 0); return true; }
        if (local) { int w = s.pick(4); if (w == 0) { d = "anisotropic overload on a local grid"; (void)g.getCandidateConstructionPoints(type_level, std::vector<int>((size_t)dm, 1)); } else if (w == 1) { d = "output overload on a local grid"; (void)g.getCandidateConstructionPoints(type_level, 0); }
            else if (w == 2) { d = "limits size"; (void)g.getCandidateConstructionPoints(0.01, refine_classic, 0, wrong_size_vec(s, dm)); } else { int o = outs + s.pick(2); d = "output " + std::to_string(o); (void)g.getCandidateConstructionPoints(0.01, refine_classic, o); } return true; }
        int w = s.pick(5); if (w == 0) { d = "surplus overload on a global-type grid"; (void)g.getCandidateConstructionPoints(0.01, refine_classic, 0); }
        else if (w == 1) { TypeDepth t = s.of(ALL_TYPES); auto aw = wrong_size_vec(s, is_curved(t) ? 2 * dm : dm); d = std::string("weights size ") + std::to_string(aw.size()) + " for " + type_name(t); (void)g.getCandidateConstructionPoints(t, aw); }
        else if (w == 2) { d = "limits size"; (void)g.getCandidateConstructionPoints(type_level, std::vector<int>((size_t)dm, 1), wrong_size_vec(s, dm)); }
        else if (w == 3) { d = "limits size (output overload)"; (void)g.getCandidateConstructionPoints(type_level, 0, wrong_size_vec(s, dm)); }
        else { int o = s.pick(2) ? outs + s.pick(2) : -2; d = "output " + std::to_string(o); (void)g.getCandidateConstructionPoints(type_level, o); } return true; }});
    C.push_back({"loadConstructedPoints(violated clause)", K_OTHER, [](GridState &st, Src &s, std::string &d) { auto &g = st.g; if (g.empty() || g.getNumOutputs() == 0) return false; int dm = g.getNumDimensions(), outs = g.getNumOutputs();
        auto pts = g.getNumPoints() ? g.getPoints() : std::vector<double>((size_t)dm, 0.0); pts.resize((size_t)dm * std::min<size_t>(2, pts.size() / (size_t)dm));
        if (!st.constructing) { d = "before beginConstruction"; std::vector<double> y(pts.size() / (size_t)dm * (size_t)outs, 1.0); if (s.pick(2)) g.loadConstructedPoints(pts, y); else g.loadConstructedPoints(pts.data(), 1, y.data()); return true; }
        if (st.candidates.empty()) return false; std::vector<double> x(st.candidates.begin(), st.candidates.begin() + dm); if ((int)(st.candidates.size() / (size_t)dm) > 1) x.insert(x.end(), st.candidates.begin() + dm, st.candidates.begin() + 2 * dm);
        size_t need = x.size() / (size_t)dm * (size_t)outs; d = "y shorter than x"; g.loadConstructedPoints(x, std::vector<double>(need - 1, 1.0)); return true; }});
    // ---- L/M/N. coefficients, family specific getters, empty grid
    C.push_back({"setHierarchicalCoefficients(vector of wrong size)", K_OTHER, [](GridState &st, Src &s, std::string &d) { auto &g = st.g; if (g.empty() || st.constructing || g.getNumOutputs() == 0 || g.getNumPoints() == 0) return false; size_t right = (size_t)g.getNumPoints() * (size_t)g.getNumOutputs() * (g.isFourier() ? 2u : 1u);
        size_t n = s.pick(2) ? right + 1 : (g.isFourier() ? right / 2 : right - 1); d = std::to_string(n) + " instead of " + std::to_string(right); g.setHierarchicalCoefficients(std::vector<double>(n, 0.5)); return true; }});
    C.push_back({"getGlobalPolynomialSpace on a grid that is neither Global nor Sequence", K_OTHER, [](GridState &st, Src &s, std::string &) { if (st.g.isGlobal() || st.g.isSequence()) return false; (void)st.g.getGlobalPolynomialSpace(s.pick(2) == 1); return true; }});
    C.push_back({"removePointsByHierarchicalCoefficient on a grid that is not Local Polynomial", K_OTHER, [](GridState &st, Src &s, std::string &) { if (st.g.isLocalPolynomial()) return false; if (s.pick(2)) st.g.removePointsByHierarchicalCoefficient(0.1, -1); else st.g.removePointsByHierarchicalCoefficient(3, -1); return true; }});
    C.push_back({"getNeededIndexes on a grid that is not Local Polynomial", K_OTHER, [](GridState &st, Src &, std::string &) { if (st.g.isLocalPolynomial()) return false; (void)st.g.getNeededIndexes(); return true; }});
    C.push_back({"method that requires a non-empty grid called on an empty grid", K_OTHER, [](GridState &st, Src &s, std::string &d) { if (!st.g.empty()) return false; int v = s.pick(5); d = "variant " + std::to_string(v); std::vector<double> x(2, 0.0), y;
        switch (v) { case 0: st.g.evaluateHierarchicalFunctions(x, y); break; case 1: (void)st.g.getPointsIndexes(); break; case 2: st.g.beginConstruction(); break; case 3: { double q[4]; st.g.integrateHierarchicalFunctions(q); break; } default: st.g.loadNeededValues(x.data()); } return true; }});
    // ---- O. GPU-only entry points in a CPU build
    C.push_back({"GPU-only entry point in a CPU build", K_OTHER, [](GridState &st, Src &s, std::string &d) { if (st.g.empty() || st.g.getNumLoaded() == 0) return false; int v = s.pick(4); d = "variant " + std::to_string(v);
        switch (v) { case 0: st.g.evaluateBatchGPU<double>(nullptr, 0, nullptr); break; case 1: st.g.setCuBlasHandle(nullptr); break; case 2: st.g.evaluateHierarchicalFunctionsGPU<double>(nullptr, 0, nullptr); break; default: st.g.setSycleQueue(nullptr); } return true; }});
    // ---- P. files
    C.push_back({"read(missing file)", K_MAKE_OR_READ, [](GridState &st, Src &, std::string &) { st.g.read((cfg().workdir + "/no-such-grid-file").c_str()); return true; }});
    C.push_back({"write(unwritable path)", K_OTHER, [](GridState &st, Src &s, std::string &) { if (st.g.empty()) return false; st.g.write((cfg().workdir + "/no-such-directory/grid").c_str(), s.pick(2) == 1); return true; }});
    C.push_back({"read(ascii file with a damaged documented field)", K_MAKE_OR_READ, [](GridState &st, Src &s, std::string &d) {
        TasmanianSparseGrid don; const TasmanianSparseGrid *src = &st.g; if (st.g.empty() || s.pick(3) == 0) { donor(don, s.pick(6)); src = &don; }
        std::string f = grid_bytes(*src, false); int v = s.pick(13); bool ok = true;
        switch (v) { case 0: d = "first word"; ok = replace_first(f, "TASMANIAN", "TASMANIAM"); break; case 1: d = "second word"; ok = replace_first(f, "TASMANIAN SG", "TASMANIAN SX"); break;
            case 2: { d = "version without a dot"; size_t e = f.find('\n'); f.replace(13, e - 13, "eight"); break; } case 3: { d = "version prior to 3.0"; size_t e = f.find('\n'); f.replace(13, e - 13, "2.0"); break; }
            case 4: { size_t e = f.find('\n'); std::string cur = f.substr(13, e - 13); int maj = 8, mnr = 2; sscanf(cur.c_str(), "%d.%d", &maj, &mnr);   // every version after the one this tree writes is a future version
                int w = s.pick(7); std::string nv = w == 0 ? "99.0" : w == 1 ? std::to_string(maj) + ".99" : w == 2 ? std::to_string(maj + 1) + ".0" : w == 3 ? std::to_string(maj) + "." + std::to_string(mnr + 1)
                    : w == 4 ? std::to_string(maj) + "." + std::to_string(mnr) + "0" : w == 5 ? std::to_string(maj) + ".1" + std::to_string(mnr) : std::to_string(maj) + "." + std::to_string(mnr) + "00";
                d = "future version " + nv; f.replace(13, e - 13, nv); break; } case 5: { d = "huge version number"; size_t e = f.find('\n'); f.replace(13, e - 13, "99999999999.0"); break; }
            case 6: d = "missing warning line"; ok = replace_first(f, "WARNING: do not edit this manually", "WARNING: edit this manually"); break;
            case 7: { d = "unknown grid type"; size_t p = f.find("manually\n"); size_t e = f.find_first_of(" \n", p + 9); f.replace(p + 9, e - (p + 9), "hexagonal"); break; }
            case 8: d = "domain line"; ok = replace_first(f, "\ncanonical\n", "\ncanonicall\n") || replace_first(f, "\ncustom\n", "\ncustomm\n"); break;
            case 9: d = "conformal line"; ok = replace_first(f, "\nnonconformal\n", "\nnoconformal\n") || replace_first(f, "\nasinconformal\n", "\nasinconformall\n"); break;
            case 10: d = "limits line"; ok = replace_first(f, "\nunlimited\n", "\nunlimitted\n") || replace_first(f, "\nlimited\n", "\nlimitted\n"); break;
            case 11: d = "construction line"; ok = replace_first(f, "\nstatic\n", "\nstatik\n") || replace_first(f, "\nconstructing\n", "\nconstructin\n"); break;
            default: d = "end line"; ok = replace_first(f, "TASMANIAN SG end", "TASMANIAN SG ent"); }
        if (!ok) return false;
        if (s.pick(2)) { std::istringstream is(f); st.g.read(is, false); } else { std::string p = write_file("bad-ascii.grid", f); st.g.read(p.c_str()); } return true; }});
    C.push_back({"read(binary file with a damaged documented field)", K_MAKE_OR_READ, [](GridState &st, Src &s, std::string &d) {
        TasmanianSparseGrid don; const TasmanianSparseGrid *src = &st.g; if (st.g.empty() || s.pick(3) == 0) { donor(don, s.pick(6)); src = &don; }
        std::string f = grid_bytes(*src, true); int v = s.pick(4); bool via_stream = s.pick(2);
        if (v == 0) { d = "magic bytes"; f[(size_t)s.pick(3)] = 'X'; } else if (v == 1) { d = "format version byte"; f[3] = s.pick(2) ? '4' : '9'; } else if (v == 2) { d = "grid type byte"; f[4] = 'q'; }
        else { // trailer flags: the file ends with  <domain flag> [a,b] <conformal flag> [..] <limits flag> [..] <construction flag> [..] 'e'; damage the final marker or the flag before it
            d = "trailer"; if (src->isUsingConstruction() || f.size() < 8) f[f.size() - 1] = 'x'; else { int back = 1 + s.pick(2); f[f.size() - (size_t)back] = 'x'; } }
        if (via_stream) { std::istringstream is(f); st.g.read(is, true); } else { std::string p = write_file("bad-binary.grid", f); st.g.read(p.c_str()); } return true; }});
    return C;
}
} // namespace

void check_C14(Src &s, Ctx &ctx) {
    SpecOpts so; so.min_outs = 0; so.max_outs = 2; so.cap = cfg().tier ? 180 : 120;
    GridState st; st.cap = so.cap; st.ctx = &ctx;
    st.spec = decode_spec(s, so); st.vm.decode(s);
    bool empty_state = s.chance(1, 10);
    if (!empty_state) {
        make_grid(st.g, st.spec, so.cap); ctx.log(st.spec.text());
        static const std::vector<int> kinds = {OP_LOAD, OP_LOAD, OP_REF_SURP, OP_REF_ANISO, OP_UPDATE, OP_RELOAD, OP_BEGIN_CONSTR, OP_BEGIN_CONSTR, OP_CANDIDATES, OP_LOAD_CONSTR, OP_SET_TRANSFORM, OP_CLEAR_REF, OP_MERGE};
        run_history(s, st, kinds, s.pick(6), !s.chance(1, 4), [&](const Op &) {});
    } else ctx.log("EMPTY GRID");
    const auto &cat = catalogue();
    size_t start = (size_t)s.u16() % cat.size();
    const char *state = st.g.empty() ? "E" : (st.constructing ? "C" : (st.g.getNumOutputs() == 0 ? "Z" : (st.g.getNumLoaded() == 0 ? "F" : (st.g.getNumNeeded() > 0 ? "P" : "L"))));
    ObserveOpts oo; oo.limits = false;   // the statement lists points, values and surrogate; limits are logged only
    GridState pristine = st; pristine.ctx = nullptr;
    Digest before = observe(st.g, oo);
    std::vector<double> cand_before = st.candidates;
    for (size_t k = 0; k < cat.size(); k++) {
        const Entry &e = cat[(start + k) % cat.size()];
        std::string detail; bool applicable = true, threw = false; std::string what;
        Src fork = s;   // the entry consumes from a copy first to learn applicability without a side effect on the stream position of inapplicable ones
        try { applicable = e.run(st, fork, detail); }
        catch (std::invalid_argument &x) { threw = true; what = x.what(); }
        catch (std::runtime_error &x) {
            // std::runtime_error has derived types (range_error, overflow_error, system_error ...): only the two documented types are accepted
            threw = true; what = x.what();
            if (dynamic_cast<std::range_error *>(&x) || dynamic_cast<std::overflow_error *>(&x) || dynamic_cast<std::underflow_error *>(&x)) throw Violation("C14.wrong-exception-type", std::string(e.name) + " [" + detail + "] threw a " + typeid(x).name() + ": " + what);
        }
        catch (Violation &) { throw; }
        catch (std::exception &x) { throw Violation("C14.wrong-exception-type", std::string(e.name) + " [" + detail + "] in state " + state + " threw " + typeid(x).name() + " (" + x.what() + ") instead of std::invalid_argument / std::runtime_error"); }
        if (!applicable && !threw) continue;
        s = fork;
        ctx.log(std::string("misuse: ") + e.name + (detail.empty() ? "" : " [" + detail + "]") + " in state " + state);
        ctx.label(std::string("entry:") + e.name); ctx.label(std::string("state:") + state); ctx.count("misuse-calls");
        VF_REQUIRE("C14.no-exception", threw, e.name << " [" << detail << "] in state " << state << " did not throw");
        // post-condition
        Digest after = observe(st.g, oo);
        bool ok_empty = e.kind == K_MAKE_OR_READ && st.g.empty();
        if (!ok_empty) { std::string dd = digest_diff(before, after, true); VF_REQUIRE("C14.state-changed", dd.empty(), "after the failed call " << e.name << " [" << detail << "] (" << what << ") the object is neither " << (e.kind == K_MAKE_OR_READ ? "empty nor " : "") << "what it was before: " << dd); }
        else { ctx.label("post:empty"); VF_REQUIRE("C14.empty-not-clean", !st.g.isUsingConstruction() && st.g.getNumPoints() == 0 && st.g.getNumDimensions() == 0, "object emptied by the failed call still reports construction/points"); }
        // continuation: the object must behave exactly like a pristine copy of the pre-call state
        if (!st.g.empty()) {
            static const std::vector<int> ckinds = {OP_LOAD, OP_RELOAD, OP_REF_SURP, OP_REF_ANISO, OP_UPDATE, OP_CANDIDATES, OP_LOAD_CONSTR, OP_FINISH_CONSTR, OP_BEGIN_CONSTR, OP_MERGE};
            for (int i = 0; i < 2; i++) { Op op = decode_op(s, st.spec, ckinds); if (i == 0 && st.g.getNumNeeded() > 0 && !st.constructing) op.kind = OP_LOAD;
                bool a = apply_op(st, op), b = apply_op(pristine, op); VF_REQUIRE("C14.continuation", a == b, "continuation op legal on one side only");
                if (a) { std::string dd = digest_diff(observe(st.g, oo), observe(pristine.g, oo), true); VF_REQUIRE("C14.continuation", dd.empty(), "after the failed call the object does not behave like a pristine copy (" << st.trace.back() << "): " << dd); ctx.count("continuation-steps"); } }
        } else {
            // an emptied object must be fully usable: make a new grid in it and use it
            st.g.makeLocalPolynomialGrid(2, 1, 2); std::vector<double> v((size_t)st.g.getNumNeeded(), 2.0); st.g.loadNeededValues(v); std::vector<double> y; st.g.evaluate(std::vector<double>{0.25, -0.5}, y);
            VF_REQUIRE("C14.continuation", std::fabs(y[0] - 2.0) < 1e-12 && !st.g.isUsingConstruction(), "object emptied by a failed call is not usable afterwards");
        }
        bool file_clause = std::string(e.name).rfind("read(", 0) == 0 || std::string(e.name).rfind("write(", 0) == 0;
        ctx.nontrivial = file_clause || !(std::string(state) == "F" || std::string(state) == "E");
        return;
    }
    ctx.label("no-applicable-entry");
}
VF_REGISTER(C14, check_C14, "grid state from a history (empty, fresh, loaded, pending refinement, active construction, zero outputs; all families) x entry of the misuse catalogue (every \\throws clause of TasmanianSparseGrid.hpp) x generated offending arguments; "
            "non-trivial = the state is not a fresh/empty grid, or the entry is a file-format clause");

} // namespace vf
