// C02 - quadrature is exact on the polynomial space the grid declares.
// Generator: Global (every rule, alpha/beta palette, in-memory Gauss-Legendre table, exotic tables of tsgExoticQuadrature.hpp), Sequence and
// Fourier grids (plus LocalPolynomial / Wavelet for the integrate identity only), d <= 3, all 12 depth types, anisotropic weights, level
// limits, linear transforms, 0-3 outputs, optionally one update / refinement step after the first load (general lower sets).
// Oracles:
//   C02.monomial          sum_i w_i prod_j x_ij^p_j == prod_j mu_j(p_j) for every multi-index p of getGlobalPolynomialSpace(false)
//                         (all of them up to 300, otherwise the maximal elements and a sample); mu = exact moment of the weight function
//                         documented for the rule on the transformed domain (moments.hpp). clenshaw-curtis-zero: vanishing-polynomial
//                         variant of DESIGN 2.9 ((1-t^2) t^(p-2) per direction, indices with all p_j >= 2).
//   C02.weights-sum       sum_i w_i == measure of the transformed domain (not for zero-boundary rules)
//   C02.fourier-mode      for every mode k attached to a grid point: sum_i w_i cos(2 pi k.t_i) == delta_k0 * volume, sum_i w_i sin(..) == 0
//   C02.integrate         integrate() == sum_i w_i v_i for the loaded values (every family)
// Tolerances: |a-b| <= tau * S, S = max(sum_i |w_i phi(x_i)|, |expected|, sum_i |w_i| * prod_j R_j^p_j) with R_j the magnitude of x_j on the
// domain (so that an odd monomial on a symmetric rule, where sum and scale are both rounding noise, is compared with a meaningful scale).
#include "refmodel/moments.hpp"

namespace vf {
using namespace c0203;

namespace {
const char *KF_CHEB = "C02-chebyshev-declared-power";

// smallest odd number >= p (p = 0 -> 1): a chebyshev level with an even number of nodes is exact to its odd degree only
inline int odd_up(int p) { return (p % 2) ? p : p + 1; }
}

void check_C02(Src &s, Ctx &ctx) {
    static const int fmap[] = {F_GLOBAL, F_SEQ, F_FOURIER, F_LOCALP, F_WAVE};
    int fam = fmap[s.weighted({7, 3, 3, 1, 1})];
    SpecOpts so; so.fam_mask = 1u << fam; so.max_dims = 3; so.min_outs = 0; so.max_outs = 3; so.conformal = false; so.cap = cfg().tier ? 450 : 300;
    GridState st; st.cap = so.cap; st.ctx = &ctx;
    st.spec = decode_spec(s, so);
    int exotic = -1;
    if (fam == F_GLOBAL && !st.spec.custom && s.chance(1, 12)) { st.spec.custom = true; st.spec.rule = rule_customtabulated; st.spec.alpha = st.spec.beta = 0; }   // more weight on custom tables
    if (st.spec.custom && s.chance(1, 2)) { exotic = s.pick(NUM_EXOTIC); st.spec.ta.clear(); st.spec.tb.clear(); }   // exotic weights are documented on [-1,1]
    if (st.spec.ta.empty() && s.chance(1, 6)) {   // a little more weight on transforms (floor: transform present >= 30 %)
        if (exotic < 0) for (int j = 0; j < st.spec.dims; j++) { auto ab = (fam == F_GLOBAL && rule_unbounded(st.spec.rule)) ? s.of(UNBOUNDED_AB) : s.of(BOUNDED_AB); st.spec.ta.push_back(ab.first); st.spec.tb.push_back(ab.second); }
    }
    st.vm.decode(s);
    make_grid2(st.g, st.spec, exotic, so.cap);
    const GridSpec &sp = st.spec;
    ctx.log(sp.text() + (exotic >= 0 ? std::string(" exotic=") + EXOTICS[exotic].name : std::string("")));
    if (sp.outs > 0) ctx.log(st.vm.text());

    // the grid under test is, for one case in six, a copy / a restored file of the grid that was made (grids reach user code that way):
    // copy construction, assignment, copyGrid or a write/read round trip; the history below then runs on the copy
    if (s.chance(1, 6)) { Op cp; cp.kind = s.pick(2) ? OP_COPY : OP_ROUNDTRIP; cp.variant = s.pick(4); apply_op(st, cp); ctx.log(st.trace.back()); ctx.label("via-copy"); }
    // ---- history: load, optionally one update / refinement (general lower sets), optionally load again (otherwise the proposal stays pending)
    bool refined = false;
    if (sp.outs > 0) {
        Op ld; ld.kind = OP_LOAD; apply_op(st, ld);
        if (exotic < 0 && s.chance(1, 3)) {
            static const std::vector<int> kinds = {OP_REF_ANISO, OP_UPDATE, OP_REF_SURP};
            Op op = decode_op(s, sp, kinds);
            if ((op.kind == OP_REF_ANISO || op.kind == OP_UPDATE) && (fam == F_LOCALP || fam == F_WAVE)) op.kind = OP_REF_SURP;
            else if (op.kind == OP_REF_SURP && !st.surplus_capable() && st.aniso_capable()) { op.kind = OP_REF_ANISO; if (is_tensor_type(op.type)) op.type = type_level; }
            else if (op.kind != OP_UPDATE && !st.surplus_capable() && !st.aniso_capable()) op.kind = OP_UPDATE;
            if (apply_op(st, op)) { refined = true; if (st.g.getNumNeeded() > 0 && s.chance(3, 4)) apply_op(st, ld); }
        }
        // one case in four (from the last byte): the values are loaded AGAIN on an unchanged point set - an overwrite with other values, or a merge of a
        // pending refinement followed by a load of all values: integrate() must follow the values now stored
        if (exotic < 0 && s.n >= 3 && (s.p[s.n - 1] % 4) == 1) {
            Op again; again.kind = OP_RELOAD;
            if (st.g.getNumNeeded() > 0 && (s.p[s.n - 2] % 2)) { Op mg; mg.kind = OP_MERGE; if (apply_op(st, mg)) { ctx.log(st.trace.back()); apply_op(st, ld); ctx.log(st.trace.back()); ctx.label("reloaded:after-merge"); } }
            else if (apply_op(st, again)) { ctx.log(st.trace.back()); ctx.label("reloaded:overwrite"); }
        }
    }
    auto &g = st.g; const int d = sp.dims, outs = sp.outs;
    const int N = g.getNumPoints();
    const bool tr = !sp.ta.empty();
    const bool pending = g.getNumLoaded() > 0 && g.getNumNeeded() > 0;
    std::vector<double> pts = g.getPoints(), w = g.getQuadratureWeights();
    VF_REQUIRE("C02.sizes", (int)w.size() == N && (int)pts.size() == N * d, "getQuadratureWeights returned " << w.size() << " weights, getPoints " << pts.size() << " numbers for " << N << " points in " << d << " dimensions");
    LD sumabs_w = 0, sum_w = 0; for (double v : w) { sumabs_w += fabsl((LD)v); sum_w += (LD)v; }
    const Weight1D wt = weight_for(sp, exotic);
    const bool zero_b = (fam == F_GLOBAL && !sp.custom && sp.rule == rule_clenshawcurtis0);
    const bool gs = (fam == F_GLOBAL || fam == F_SEQ);
    // exotic tables are themselves numerical constructions (orthogonal polynomials of a 120-point reference measure, eigenvalue solve stopped at 1e-12): 10x looser than the built-in rules
    const double tau = 1e-9, tau_mono = (exotic >= 0) ? 5e-8 : 5e-9;   // calibrated: largest ratio over 50 000 cases on the pinned tree 2e-4
    int max_total = 0; long tested = 0;
    double r_prev = 0;   // classes whose error / tolerance ratio exceeds 1e-4 are labelled (calibration evidence)
    auto mark = [&](const char *block) { if (ctx.max_ratio > r_prev && ctx.max_ratio > 1e-4) ctx.label(std::string(ctx.max_ratio > 1e-3 ? "ratio>1e-3:" : "ratio>1e-4:") + block + ":" + (fam == F_GLOBAL ? (sp.custom ? (exotic >= 0 ? std::string("exotic:") + EXOTICS[exotic].name : std::string("custom-gl")) : rule_name(sp.rule)) : std::string(fam_name(fam)))); r_prev = std::max(r_prev, ctx.max_ratio); };

    // ---- (i) declared polynomial space
    if (gs) {
        Space sp_q; sp_q.build(g.getGlobalPolynomialSpace(false), d);
        VF_REQUIRE("C02.space-shape", !sp_q.idx.empty() && sp_q.have.size() == sp_q.idx.size(), "getGlobalPolynomialSpace(false) is empty or lists a multi-index twice (" << sp_q.idx.size() << " entries, " << sp_q.have.size() << " distinct)");
        const size_t np = sp_q.idx.size();
        // per direction: exact moments, node tables phi_k(x_ij), magnitude of x_j
        std::vector<std::vector<LD>> mu((size_t)d), tab((size_t)d); std::vector<LD> R((size_t)d);
        for (int j = 0; j < d; j++) {
            int P = sp_q.maxp[(size_t)j]; double a = tr ? sp.ta[(size_t)j] : 0, b = tr ? sp.tb[(size_t)j] : 0;
            mu[(size_t)j] = zero_b ? cc0_moments(tr, a, b, P) : moments_1d(wt, tr, a, b, P);
            R[(size_t)j] = zero_b ? (LD)1 : domain_radius(sp, j, pts, N);
            auto &T = tab[(size_t)j]; T.assign((size_t)N * (size_t)(P + 1), 0);
            for (int i = 0; i < N; i++) {
                LD x = (LD)pts[(size_t)i * (size_t)d + (size_t)j];
                if (zero_b) { LD t = to_canonical11(x, tr, a, b); for (int k = 2; k <= P; k++) T[(size_t)i * (size_t)(P + 1) + (size_t)k] = cc0_basis(t, k); }
                else { LD p = 1; for (int k = 0; k <= P; k++) { T[(size_t)i * (size_t)(P + 1) + (size_t)k] = p; p *= x; } }
            }
        }
        // selection
        std::vector<size_t> sel; std::string how;
        if (np <= 300) { for (size_t q = 0; q < np; q++) sel.push_back(q); how = "all"; }
        else { for (size_t q = 0; q < np; q++) if (sp_q.maximal(sp_q.idx[q])) sel.push_back(q); size_t nm = sel.size(); for (int r = 0; r < 80; r++) sel.push_back((size_t)s.u16() % np); how = "maximal(" + std::to_string(nm) + ")+sample"; ctx.label("space>300"); }
        bool excl_cheb = false;
        if (fam == F_GLOBAL && !sp.custom && sp.rule == rule_chebyshev) excl_cheb = ctx.excl(KF_CHEB);
        long skipped_cheb = 0, skipped_cc0 = 0;
        for (size_t q : sel) {
            const auto &p = sp_q.idx[q];
            if (zero_b) { bool ok = true; for (int v : p) if (v < 2) ok = false; if (!ok) { skipped_cc0++; continue; } }   // no vanishing polynomial of degree 0 or 1 exists (DESIGN 2.9)
            if (excl_cheb) {   // known finding: levels with an even number of nodes declare one degree too many; only the sound part of the space is asserted
                std::vector<int> r = p; for (auto &v : r) v = odd_up(v);
                if (!sp_q.contains(r)) { skipped_cheb++; continue; }
            }
            LD sum = 0, sc = 0, expect = 1, flo = sumabs_w;
            for (int i = 0; i < N; i++) { LD f = 1; for (int j = 0; j < d; j++) f *= tab[(size_t)j][(size_t)i * (size_t)(sp_q.maxp[(size_t)j] + 1) + (size_t)p[(size_t)j]]; f *= (LD)w[(size_t)i]; sum += f; sc += fabsl(f); }
            for (int j = 0; j < d; j++) { expect *= mu[(size_t)j][(size_t)p[(size_t)j]]; flo *= powl(R[(size_t)j], p[(size_t)j]); }
            LD S = std::max(std::max(sc, fabsl(expect)), flo);
            ctx.close("C02.monomial", (double)sum, (double)expect, (double)S, tau_mono, [&]() { std::ostringstream o; o << (zero_b ? "vanishing polynomial of declared powers (" : "monomial with powers (") << join(p) << ") of getGlobalPolynomialSpace(false): sum_i w_i phi(x_i) vs exact integral ["
                << sp.text() << ", " << N << " points]"; return o.str(); });
            tested++; max_total = std::max(max_total, sp_q.total(p));
        }
        mark("monomial");
        ctx.count("monomials", tested); if (skipped_cheb) ctx.count("excluded-chebyshev-indices", skipped_cheb); if (skipped_cc0) ctx.count("cc0-indices-without-vanishing-polynomial", skipped_cc0);
        ctx.log("space: " + std::to_string(np) + " multi-indices, tested " + std::to_string(tested) + " (" + how + "), max total degree " + std::to_string(max_total));
        if (zero_b && tested == 0) ctx.label("cc0:no-testable-index");
        // ---- (ii) weights sum to the measure
        if (!zero_b) {
            LD vol = 1; for (int j = 0; j < d; j++) vol *= mu[(size_t)j][0];
            ctx.close("C02.weights-sum", (double)sum_w, (double)vol, (double)std::max(sumabs_w, fabsl(vol)), tau_mono, [&]() { return "sum of the quadrature weights vs measure of the (transformed) domain [" + sp.text() + "]"; });
            ctx.count("weights-sum"); mark("weights-sum");
        }
    }

    // ---- (iii) Fourier modes, (ii) volume
    if (fam == F_FOURIER) {
        LD vol = 1; for (int j = 0; j < d; j++) vol *= tr ? ((LD)sp.tb[(size_t)j] - (LD)sp.ta[(size_t)j]) : 1;
        ctx.close("C02.weights-sum", (double)sum_w, (double)vol, (double)std::max(sumabs_w, vol), tau, [&]() { return "sum of the Fourier quadrature weights vs volume of the domain [" + sp.text() + "]"; });
        ctx.count("weights-sum");
        const int *ix = g.getPointsIndexes();
        std::vector<int> maxi((size_t)d, 0); for (int i = 0; i < N; i++) for (int j = 0; j < d; j++) maxi[(size_t)j] = std::max(maxi[(size_t)j], ix[(size_t)i * (size_t)d + (size_t)j]);
        // E[j][i][idx] = exp(2 pi i k(idx) t_ij) as (re, im), by powers of exp(2 pi i t)
        std::vector<std::vector<LD>> Ere((size_t)d), Eim((size_t)d);
        for (int j = 0; j < d; j++) {
            int M = maxi[(size_t)j]; int K = (M + 1) / 2; Ere[(size_t)j].assign((size_t)N * (size_t)(M + 1), 0); Eim[(size_t)j].assign((size_t)N * (size_t)(M + 1), 0);
            for (int i = 0; i < N; i++) {
                LD t = to_canonical01((LD)pts[(size_t)i * (size_t)d + (size_t)j], tr, tr ? sp.ta[(size_t)j] : 0, tr ? sp.tb[(size_t)j] : 0);
                LD c1 = cosl(2 * PI_L * t), s1 = sinl(2 * PI_L * t), cr = 1, ci = 0;
                for (int k = 0; k <= K; k++) {   // (cr, ci) = exp(2 pi i k t)
                    int ipos = 2 * k, ineg = 2 * k - 1;   // index of +k (k = 0: index 0) and of -k
                    if (k == 0) { Ere[(size_t)j][(size_t)i * (size_t)(M + 1)] = 1; }
                    else { if (ipos <= M) { Ere[(size_t)j][(size_t)i * (size_t)(M + 1) + (size_t)ipos] = cr; Eim[(size_t)j][(size_t)i * (size_t)(M + 1) + (size_t)ipos] = ci; }
                           if (ineg <= M) { Ere[(size_t)j][(size_t)i * (size_t)(M + 1) + (size_t)ineg] = cr; Eim[(size_t)j][(size_t)i * (size_t)(M + 1) + (size_t)ineg] = -ci; } }
                    LD nr = cr * c1 - ci * s1, ni = cr * s1 + ci * c1; cr = nr; ci = ni;
                }
            }
        }
        std::vector<int> sel;
        if (N <= 300) for (int m = 0; m < N; m++) sel.push_back(m); else { for (int r = 0; r < 200; r++) sel.push_back((int)(s.u16() % (unsigned)N)); ctx.label("space>300"); }
        for (int m : sel) {
            LD re = 0, im = 0; bool zero = true; int tot = 0;
            for (int j = 0; j < d; j++) { int k = fourier_freq(ix[(size_t)m * (size_t)d + (size_t)j]); if (k != 0) zero = false; tot += std::abs(k); }
            for (int i = 0; i < N; i++) { LD ar = 1, ai = 0; for (int j = 0; j < d; j++) { size_t q = (size_t)i * (size_t)(maxi[(size_t)j] + 1) + (size_t)ix[(size_t)m * (size_t)d + (size_t)j]; LD br = Ere[(size_t)j][q], bi = Eim[(size_t)j][q]; LD nr = ar * br - ai * bi, ni = ar * bi + ai * br; ar = nr; ai = ni; }
                re += (LD)w[(size_t)i] * ar; im += (LD)w[(size_t)i] * ai; }
            auto where = [&](const char *what) { return [&, what]() { std::ostringstream o; o << "sum_i w_i " << what << "(2 pi k.t_i) for the mode k=("; for (int j = 0; j < d; j++) o << (j ? "," : "") << fourier_freq(ix[(size_t)m * (size_t)d + (size_t)j]); o << ") of grid point #" << m << " [" << sp.text() << ", " << N << " points]"; return o.str(); }; };
            ctx.close("C02.fourier-mode", (double)re, zero ? (double)vol : 0.0, (double)std::max(sumabs_w, vol), tau, where("cos"));
            ctx.close("C02.fourier-mode", (double)im, 0.0, (double)std::max(sumabs_w, vol), tau, where("sin"));
            tested++; max_total = std::max(max_total, tot);
        }
        mark("fourier-mode");
        ctx.count("fourier-modes", tested);
        ctx.log("modes: " + std::to_string(N) + ", tested " + std::to_string(tested) + ", max |k|_1 " + std::to_string(max_total));
    }

    // ---- (iv) integrate() == weights x values
    if (outs > 0 && g.getNumLoaded() > 0) {
        const double *vals = g.getLoadedValues(); std::vector<double> q; g.integrate(q);
        VF_REQUIRE("C02.sizes", (int)q.size() == outs && g.getNumLoaded() == N, "integrate returned " << q.size() << " numbers for " << outs << " outputs; loaded " << g.getNumLoaded() << " vs points " << N);
        for (int k = 0; k < outs; k++) { LD sum = 0, sc = 0, vmax = 0; for (int i = 0; i < N; i++) { LD t = (LD)w[(size_t)i] * (LD)vals[(size_t)i * (size_t)outs + (size_t)k]; sum += t; sc += fabsl(t); vmax = std::max(vmax, fabsl((LD)vals[(size_t)i * (size_t)outs + (size_t)k])); }
            ctx.close("C02.integrate", q[(size_t)k], (double)sum, (double)std::max(sc, vmax * sumabs_w * 1e-3L), (fam == F_WAVE) ? 1e-8 : tau, [&]() { return "integrate() output " + std::to_string(k) + " vs sum_i w_i v_i [" + sp.text() + "]"; }); }
        mark("integrate");
        ctx.count("integrate-outputs", outs);
    }

    // ---- classes
    ctx.label(std::string("fam:") + fam_name(fam));
    if (fam == F_GLOBAL) ctx.label("rule:" + (sp.custom ? (exotic >= 0 ? std::string("exotic") : std::string("custom-gl")) : rule_name(sp.rule)));
    if (fam == F_SEQ) ctx.label("seq:" + rule_name(sp.rule));
    if (exotic >= 0) ctx.label(std::string("exotic:") + EXOTICS[exotic].name);
    if (fam != F_LOCALP && fam != F_WAVE) ctx.label(std::string("type:") + type_name(sp.type));
    ctx.label("d:" + std::to_string(d));
    if (tr) ctx.label("transform"); if (!sp.limits.empty()) ctx.label("limits"); if (!sp.aw.empty()) ctx.label("aniso");
    bool ab = fam == F_GLOBAL && !sp.custom && rule_uses_alpha(sp.rule) && (sp.alpha != 0.0 || sp.beta != 0.0); if (ab) ctx.label("alpha-beta");
    if (outs == 0) ctx.label("outs:0"); else ctx.label("outs>0");
    if (refined) ctx.label("hist:refined"); if (pending) ctx.label("state:pending");
    if (zero_b) ctx.label("zero-boundary");
    bool nondefault = sp.type != type_level || !sp.aw.empty() || !sp.limits.empty() || tr || ab || refined || exotic >= 0;
    ctx.nontrivial = (gs || fam == F_FOURIER) && tested > 0 && max_total >= 2 && nondefault;
}
VF_REGISTER(C02, check_C02, "grid spec (Global: all rules, alpha/beta palette, in-memory Gauss-Legendre and exotic custom tables; Sequence; Fourier; d<=3; 12 depth types; anisotropic weights; level limits; "
            "linear transforms; 0-3 outputs; optional update/refinement step) -> every multi-index of getGlobalPolynomialSpace(false) (<=300: all, else maximal + sample) / every Fourier mode of the grid; "
            "non-trivial = an asserted monomial or mode has total degree >= 2 AND the configuration is not the default one (type != level, or anisotropic weights, limits, transform, alpha/beta != 0, exotic table "
            "or a refinement/update step present); distinct = distinct normalised case text");

} // namespace vf
