// C15 - DREAM sampling is memory-safe, stays in the domain and keeps consistent books.
//
// The case decodes: chains 1-6, dims 1-3, regular/log form, independent update (default no_update, TypeDistribution overload with
// dist_none/dist_null, dist_uniform, dist_gaussian, user lambda), differential weight (const_percent<0>, const_percent<P>, const_one, scripted
// lambda), burn-up and collect 0-6, an optional split of the run into two consecutive SampleDREAM calls, a domain test (everything,
// TasDREAM::hypercube, half-space, nothing-but-the-initial-states, own box), a strictly positive pdf (Cauchy product, power-of-two table,
// clamped Gaussian; its log in log form), an initial state inside the domain, and a SCRIPTED uniform generator: every value returned to the
// library is read from the case bytes through a palette that contains exactly 0.0 and exactly 1.0 (3/16 each per draw).
//
// The harness is the only thing the library talks to (pdf, inside, update, weight, rng are harness callbacks), so it keeps a reference model
// of the chain state on-line:
//   * the i-th inside() call of an iteration carries the proposal of chain i (the documentation promises one call per proposal; the chain
//     order is confirmed by the proposal oracle: the vector must equal s_i + w (s_k - s_j) + update for some j,k in range);
//   * the pdf batch must consist of exactly the proposals that passed inside(), in order;
//   * when the batch arrives the harness fixes ONE uniform value u_t for the acceptance tests of this iteration and the scripted generator
//     returns u_t for the acceptance draws, so the accept rule is decidable without knowing which draw belongs to which chain:
//       accept:counted - u_t is returned for exactly n draws, n = number of in-domain proposals whose pdf does not exceed the current one
//                        (the property's rule needs a uniform draw for these and only these); every other draw is free;
//       accept:sticky  - u_t is returned until the next non-rng callback (no assumption at all on number/order of the draws; the price is
//                        that the two index draws of chain 0 in the next iteration also see u_t);
//   * expected transition: chain i moves to its proposal iff inside && (p_new > p_old || p_new/p_old >= u_t) [p_new - p_old >= log(u_t)
//     in log form], otherwise it keeps state and pdf value. The library state is compared (bitwise) with the model at the first callback
//     of every iteration and after every call; history / pdf history / acceptance rate are compared after every call.
// The classification of a draw as "index draw" (first two draws of a chain's proposal, tsgDreamSample.hpp:446-447) is used for labels,
// for the non-triviality rule and for the exclusion hook of a known finding only, never by an oracle.
#include "common.hpp"
#include "TasmanianDREAM.hpp"

namespace vf {
namespace {

using TasDREAM::TasmanianDREAM;

enum { UPD_DEFAULT, UPD_DISTNONE, UPD_UNIFORM, UPD_GAUSS, UPD_USER };
enum { W_ZERO, W_PERCENT, W_ONE, W_SCRIPT };
enum { DOM_ALL, DOM_CUBE, DOM_HALF, DOM_INITIAL, DOM_OWNBOX };
enum { PDF_CAUCHY, PDF_TABLE, PDF_GAUSS };
const char *upd_name[] = {"default-no_update", "dist-none", "uniform", "gaussian", "user"};
const char *w_name[] = {"percent0", "percent", "const_one", "scripted"};
const char *dom_name[] = {"everything", "hypercube", "half-space", "initial-states-only", "own-box"};
const char *pdf_name[] = {"cauchy", "table", "gauss"};

struct Ambiguous {};   // razor-edge tie of the accept rule (different but equivalent floating point forms disagree): the case is abandoned

std::string g9(double x) { char b[40]; snprintf(b, sizeof b, "%.9g", x); return b; }
std::string vec9(const double *x, int d) { std::string s = "("; for (int i = 0; i < d; i++) { if (i) s += ","; s += g9(x[i]); } return s + ")"; }
bool same_bits(const double *a, const double *b, size_t n) { return n == 0 || std::memcmp(a, b, n * sizeof(double)) == 0; }
bool same_bits(const std::vector<double> &a, const std::vector<double> &b) { return a.size() == b.size() && same_bits(a.data(), b.data(), a.size()); }
bool all_finite(const std::vector<double> &v) { for (double x : v) if (!std::isfinite(x)) return false; return true; }

struct Cfg {
    int N = 1, D = 1; bool logf = false;
    int upd = UPD_DEFAULT; double mag = 0.5; bool use_null = false;
    int wk = W_ZERO, percent = 50;
    int burn = 0, collect = 0, split = -1;
    int dom = DOM_ALL; double L = 1, L2 = 1; std::vector<double> ha; double hb = 0; TasDREAM::DreamDomain cube;
    int pdfk = PDF_CAUCHY; std::vector<double> center; double scale = 1; std::vector<double> table;
    bool sticky = false; int init_mode = 0;
    std::vector<double> init, utab;

    double wconst() const { return wk == W_ZERO ? 0.0 : wk == W_ONE ? 1.0 : (double)percent / 100.0; }
    bool inside(const std::vector<double> &x) const {
        switch (dom) {
        case DOM_ALL: return true;
        case DOM_CUBE: return cube(x);
        case DOM_HALF: { double a = 0; for (int d = 0; d < D; d++) a += ha[(size_t)d] * x[(size_t)d]; return a <= hb; }
        case DOM_INITIAL: for (int i = 0; i < N; i++) if (same_bits(&init[(size_t)(i * D)], x.data(), (size_t)D)) return true; return false;
        default: for (int d = 0; d < D; d++) if (!(x[(size_t)d] >= -L && x[(size_t)d] <= L2)) return false; return true;
        }
    }
    double halfval(const double *x) const { double a = 0; for (int d = 0; d < D; d++) a += ha[(size_t)d] * x[d]; return a; }
    // strictly positive for EVERY input (non-finite coordinates included); its log in log form. Pure function of the bits of x.
    double pdf(const double *x) const {
        double p = 1.0;
        if (pdfk == PDF_CAUCHY) {
            for (int d = 0; d < D; d++) { double z = (x[d] - center[(size_t)d]) / scale, q = z * z; if (!(q < 1e6)) q = 1e6; p *= 1.0 / (1.0 + q); }
        } else if (pdfk == PDF_GAUSS) {
            double sq = 0; for (int d = 0; d < D; d++) { double z = (x[d] - center[(size_t)d]) / scale, q = z * z; if (!(q < 300.0)) q = 300.0; sq += q; }
            p = std::exp(-0.5 * sq);
        } else {
            static const int mul[3] = {1, 3, 7}; int idx = 0;
            for (int d = 0; d < D; d++) { double f = std::floor(x[d] * 2.0); int cell = !(f >= -4.0) ? 0 : (f > 4.0 ? 8 : (int)f + 4); idx += mul[d] * cell; }
            p = table[(size_t)idx % table.size()];
        }
        return logf ? std::log(p) : p;
    }
    std::string text() const {
        std::ostringstream o;
        o << "DREAM chains=" << N << " dims=" << D << " form=" << (logf ? "log" : "reg") << " update=" << upd_name[upd];
        if (upd == UPD_UNIFORM || upd == UPD_GAUSS || upd == UPD_DISTNONE) o << "(mag=" << g9(mag) << (upd == UPD_DISTNONE ? (use_null ? ",dist_null" : ",dist_none") : "") << ")";
        if (upd == UPD_USER) o << "(delta-table=" << joind(utab) << ")";
        o << " weight=" << w_name[wk]; if (wk == W_PERCENT) o << "<" << percent << ">";
        o << " burn=" << burn << " collect=" << collect << " split=" << split << " accept-phase=" << (sticky ? "sticky" : "counted") << " init-mode=" << init_mode << "\n";
        o << "domain=" << dom_name[dom];
        if (dom == DOM_CUBE) o << "[-" << g9(L) << "," << g9(L) << "]";
        if (dom == DOM_OWNBOX) o << "[-" << g9(L) << "," << g9(L2) << "]";
        if (dom == DOM_HALF) o << "{a.x<=" << g9(hb) << ", a=" << joind(ha) << "}";
        o << " pdf=" << pdf_name[pdfk];
        if (pdfk == PDF_TABLE) o << "{" << joind(table) << "}"; else o << "{center=" << joind(center) << ",scale=" << g9(scale) << "}";
        o << "\ninitial=";
        for (int i = 0; i < N; i++) o << vec9(&init[(size_t)(i * D)], D);
        return o.str();
    }
};

Cfg decode(Src &s) {
    // compact decoding (the bytes after the configuration are the scripted stream, so the configuration is kept short: 12-25 bytes)
    static const std::vector<double> mags = {0.5, 0.25, 1.0, 0.125, 2.0, 0.0};
    static const std::vector<int> percents = {50, 100, 65, 98, 1};
    static const double boxes[4] = {1.0, 2.0, 1.5, 4.0};
    static const double hcoef[4] = {1.0, -1.0, 0.5, 0.0};
    static const double slacks[4] = {0.5, 0.0, 2.0, 0.25};
    static const double centers[4] = {0.0, 0.5, -0.5, 1.0};
    static const double scales[4] = {1.0, 0.5, 2.0, 0.25};
    static const double inits[16] = {0.0, 0.25, -0.25, 0.5, -0.5, 0.75, -0.75, 1.0, -1.0, 0.125, -0.125, 0.375, -0.375, 0.625, -0.625, 0.875};
    static const double deltas[8] = {0.0, 0.25, -0.25, 0.5, -0.5, 1.0, -1.0, 2.0};
    Cfg c;
    c.N = 1 + s.weighted({1, 3, 3, 3, 2, 3}); c.D = 1 + s.pick(3);
    { int f = s.byte(); c.logf = f & 1; c.sticky = ((f >> 1) % 3) == 2; c.use_null = (f >> 3) & 1; c.init_mode = (f >> 4) % 3; }
    c.upd = s.weighted({2, 1, 3, 3, 3});
    if (c.upd == UPD_UNIFORM || c.upd == UPD_GAUSS || c.upd == UPD_DISTNONE) c.mag = s.of(mags);
    if (c.upd == UPD_USER) { unsigned bits = s.u16() | ((unsigned)s.byte() << 16); for (int i = 0; i < 8; i++) c.utab.push_back(deltas[(bits >> (3 * i)) & 7]); }
    c.wk = s.weighted({2, 4, 2, 4}); if (c.wk == W_PERCENT) c.percent = s.of(percents);
    c.burn = s.pick(7); c.collect = s.pick(7);
    { int b = s.byte(); if (b & 1) c.split = (b >> 1) % (c.burn + c.collect + 1); }
    c.dom = s.weighted({3, 3, 2, 1, 2});
    double slack = 0.5;
    if (c.dom == DOM_CUBE || c.dom == DOM_OWNBOX) { int b = s.byte(); c.L = boxes[b & 3]; c.L2 = boxes[(b >> 2) & 3]; }
    if (c.dom == DOM_HALF) { int b = s.byte(); for (int d = 0; d < c.D; d++) c.ha.push_back(hcoef[(b >> (2 * d)) & 3]); slack = slacks[(b >> 6) & 3]; }
    c.pdfk = s.pick(3);
    if (c.pdfk == PDF_TABLE) { unsigned bits = s.u16() | ((unsigned)s.byte() << 16); for (int i = 0; i < 12; i++) c.table.push_back(std::ldexp(1.0, (int)((bits >> (2 * i)) & 3) - 2)); }
    else { int b = s.byte(); for (int d = 0; d < c.D; d++) c.center.push_back(centers[(b >> (2 * d)) & 3]); c.scale = scales[(b >> 6) & 3]; }
    for (int i = 0; i < c.N * c.D; i += 2) { int b = s.byte(); c.init.push_back(inits[b & 15]); if (i + 1 < c.N * c.D) c.init.push_back(inits[b >> 4]); }
    if (c.dom == DOM_HALF) {
        // half-space through / beyond the outermost initial state: every initial state is inside (the boundary is inclusive and is evaluated with
        // the same floating point expression as the test itself)
        double mx = -1e300; for (int i = 0; i < c.N; i++) mx = std::max(mx, c.halfval(&c.init[(size_t)(i * c.D)]));
        c.hb = mx + slack;
    }
    c.cube = TasDREAM::hypercube(std::vector<double>((size_t)c.D, -c.L), std::vector<double>((size_t)c.D, c.L));
    return c;
}

// facts about the whole case (both runs), for labels / non-triviality / the exclusion hook
struct Facts {
    int excl = -1;
    long accepted = 0, rejected = 0, outside = 0, tie_u1 = 0, u0 = 0, all_outside_iters = 0, nonfinite = 0, collected_moves = 0;
    bool idx0 = false, idx1 = false, k1 = false, j1 = false;
};

struct Run {
    const Cfg &c; Ctx &ctx; Facts &F; Src cur; bool logit; const char *name;
    TasmanianDREAM state;
    // reference model
    std::vector<double> st, pv, hist, hpdf; long acc = 0;
    // current call
    int burn = 0, collect = 0, t = 0;
    // current iteration
    bool open = false; int n_inside = 0, n_valid = 0; std::vector<double> props; std::vector<char> valid;
    bool w_seen = false, upd_seen = false; double cur_w = 0; std::vector<double> upd_before, upd_after; long upd_calls = 0;
    // scripted stream
    bool accept_phase = false; double u_t = 0; int acc_left = 0, acc_draws = 0, n_needed = 0, draws_in_chain = 0; long n_draws = 0;

    Run(const Cfg &cc, Ctx &cx, Facts &f, const Src &stream, bool lg, const char *nm) : c(cc), ctx(cx), F(f), cur(stream), logit(lg), name(nm), state(cc.N, cc.D) {
        props.resize((size_t)(c.N * c.D)); valid.resize((size_t)c.N);
        st = c.init;
        if (c.init_mode == 1) { int i = 0; state.setState([&](double *x) { std::copy_n(&c.init[(size_t)(i * c.D)], c.D, x); i++; }); }
        else state.setState(c.init);
        if (c.init_mode == 2) { pv.resize((size_t)c.N); for (int i = 0; i < c.N; i++) pv[(size_t)i] = c.pdf(&st[(size_t)(i * c.D)]); state.setPDFvalues(pv); }
    }
    void say(const std::string &s) { if (logit) ctx.log(s); }

    // ---- scripted uniform generator ---------------------------------------------------------------------------------------
    static double palette(int b) {
        int cls = b & 15, fine = b >> 4;
        if (cls < 3) return 0.0;
        if (cls < 6) return 1.0;
        if (cls == 6) return std::nextafter(1.0, 0.0);
        if (cls == 7) return std::ldexp(1.0, -60);
        return ((cls - 8) * 16 + fine + 0.5) / 128.0;
    }
    double accept_palette(int b) const {
        int cls = b & 15, fine = b >> 4;
        if (cls < 2) return 0.0;
        if (cls < 4) return 1.0;
        if (cls == 4) return std::nextafter(1.0, 0.0);
        if (cls == 5) return std::ldexp(1.0, -60);
        if (cls < 11) {   // coarse values: exact ties with the power-of-two table in regular form; in log form odd multiples of 1/32 (never a power of two)
            if (c.logf && c.pdfk == PDF_TABLE) return (2 * (fine % 15) + 3) / 32.0;
            return (fine % 15 + 1) / 16.0;
        }
        return ((cls - 11) * 16 + fine + 0.5) / 80.0;
    }
    bool k_out_of_range(double v) const { return (size_t)(v * (double)c.N) >= (size_t)c.N; }
    bool excluded_kdraw() {   // known-finding hook (inactive unless the id is listed as known): k index draw that maps to num_chains
        if (c.wk == W_ZERO) return false;
        if (F.excl < 0) F.excl = ctx.excl("C15-kindex-unclamped") ? 1 : 0;
        return F.excl == 1;
    }
    void end_accept() { if (accept_phase) { accept_phase = false; draws_in_chain = 0; } }
    double rng() {
        n_draws++;
        if (accept_phase) {
            if (c.sticky) {
                acc_draws++;
                if (acc_draws == n_needed + 2 && k_out_of_range(u_t) && excluded_kdraw()) return std::nextafter(1.0, 0.0);
                return u_t;
            }
            if (acc_left > 0) { acc_left--; acc_draws++; if (acc_left == 0) end_accept(); return u_t; }
            end_accept();
        }
        double v = palette(cur.byte());
        int k = draws_in_chain++;
        if (k == 1 && k_out_of_range(v) && excluded_kdraw()) v = std::nextafter(1.0, 0.0);
        if (k < 2) {
            if (v == 0.0) F.idx0 = true;
            if (k_out_of_range(v)) { F.idx1 = true; if (k == 1) F.k1 = true; else F.j1 = true; }
        }
        return v;
    }

    // ---- iteration bookkeeping ----------------------------------------------------------------------------------------------
    void check_state(const char *when) {
        VF_REQUIRE("C15.pdf-init", state.isPDFReady(), name << ": pdf values are not initialised " << when);
        const std::vector<double> &ls = state.getChainState();
        VF_REQUIRE("C15.transition", ls.size() == st.size(), name << ": chain state has " << ls.size() << " entries " << when);
        for (int i = 0; i < c.N; i++) {
            VF_REQUIRE("C15.transition", same_bits(&ls[(size_t)(i * c.D)], &st[(size_t)(i * c.D)], (size_t)c.D),
                       name << ": " << when << " chain " << i << " is at " << vec9(&ls[(size_t)(i * c.D)], c.D) << " but the accept rule puts it at " << vec9(&st[(size_t)(i * c.D)], c.D) << last_iter);
            double lp = state.getPDFvalue((size_t)i);
            VF_REQUIRE("C15.transition-pdf", same_bits(&lp, &pv[(size_t)i], 1), name << ": " << when << " cached pdf of chain " << i << " is " << decd(lp) << " but the pdf of its state is " << decd(pv[(size_t)i]) << last_iter);
        }
        ctx.count("state-compare");
    }
    std::string last_iter;   // text of the last finalised iteration (for messages)
    void begin_iter() {
        end_accept();
        if (open) return;
        VF_REQUIRE("C15.iteration-count", t < burn + collect, name << ": the sampler started iteration " << t + 1 << " of a run with burn-up " << burn << " and collect " << collect);
        check_state("at the start of an iteration");
        open = true; n_inside = 0; n_valid = 0; w_seen = false; upd_seen = false;
    }
    double on_weight() {
        begin_iter();
        static const double wp[] = {0.0, 1.0, 0.5, 0.25, 0.75, 0.125};
        cur_w = wp[cur.pick(6)]; w_seen = true; return cur_w;
    }
    void on_update(std::vector<double> &x) {
        begin_iter();
        VF_REQUIRE("C15.protocol", (int)x.size() == c.D, name << ": independent update received a vector of size " << x.size());
        upd_before = x;
        for (int d = 0; d < c.D; d++) x[(size_t)d] += c.utab[(size_t)((upd_calls * c.D + d) % 8)];
        upd_calls++; upd_after = x; upd_seen = true;
    }
    static bool near(double a, double b, double tol) { if (a == b) return true; if (std::isnan(a) && std::isnan(b)) return true; if (!std::isfinite(a) || !std::isfinite(b)) return false; return std::fabs(a - b) <= tol; }
    // proposal = s_i + w (s_k - s_j) + update for some j,k in range
    void check_proposal(int i, const std::vector<double> &x) {
        std::vector<double> base = x; double slackmag = 0; bool checkable = true;
        if (c.upd == UPD_USER) {
            VF_REQUIRE("C15.proposal", upd_seen, name << ": proposal " << vec9(x.data(), c.D) << " of chain " << i << " reached inside() without passing through the independent update");
            VF_REQUIRE("C15.proposal", same_bits(x, upd_after), name << ": inside() received " << vec9(x.data(), c.D) << " but the independent update returned " << vec9(upd_after.data(), c.D));
            base = upd_before;
        } else if (c.upd == UPD_UNIFORM) slackmag = c.mag;
        else if (c.upd == UPD_GAUSS && c.mag != 0.0) checkable = false;
        double w = c.wconst();
        if (c.wk == W_SCRIPT) { if (!w_seen) checkable = false; w = cur_w; }
        if (!checkable || !all_finite(st) || !all_finite(base)) return;
        const double eps = std::numeric_limits<double>::epsilon();
        bool found = false;
        for (int j = 0; j < c.N && !found; j++) for (int k = 0; k < c.N && !found; k++) {
            bool ok = true;
            for (int d = 0; d < c.D && ok; d++) {
                double si = st[(size_t)(i * c.D + d)], sk = st[(size_t)(k * c.D + d)], sj = st[(size_t)(j * c.D + d)];
                double e = (w != 0.0) ? si + w * (sk - sj) : si;
                double tol = 8 * eps * (std::fabs(si) + std::fabs(w) * (std::fabs(sk) + std::fabs(sj)) + slackmag) + slackmag * (1.0 + 1e-12);
                ok = near(base[(size_t)d], e, tol);
            }
            found = ok;
        }
        VF_REQUIRE("C15.proposal", found, name << ": iteration " << t << " proposal " << vec9(base.data(), c.D) << " of chain " << i << " (before the independent update) is not s_i + w (s_k - s_j) for any j,k in range; s_i=" << vec9(&st[(size_t)(i * c.D)], c.D) << " w=" << g9(w));
        ctx.count("proposal-oracle");
    }
    bool on_inside(const std::vector<double> &x) {
        begin_iter();
        VF_REQUIRE("C15.protocol", (int)x.size() == c.D, name << ": inside() received a vector of size " << x.size());
        VF_REQUIRE("C15.protocol", n_inside < c.N, name << ": iteration " << t << ": more than " << c.N << " proposals were tested before the in-domain proposals of the iteration were evaluated");
        int i = n_inside;
        check_proposal(i, x);
        if (!all_finite(x)) F.nonfinite++;
        bool r = c.inside(x);
        std::copy(x.begin(), x.end(), props.begin() + (long)(i * c.D)); valid[(size_t)i] = r; n_valid += r ? 1 : 0; n_inside++;
        draws_in_chain = 0; w_seen = false; upd_seen = false;
        if (n_inside == c.N && n_valid == 0) { F.all_outside_iters++; finalize(nullptr); }
        return r;
    }
    void on_pdf(const std::vector<double> &cand, std::vector<double> &vals) {
        if (!open) {   // evaluation of the current state (initialisation of the cached pdf values)
            VF_REQUIRE("C15.pdf-batch", cand.size() == st.size() && same_bits(cand, st), name << ": pdf called with " << cand.size() / (size_t)c.D << " point(s), first " << (cand.size() >= (size_t)c.D ? vec9(cand.data(), c.D) : std::string("-")) << ", while no proposal that passed inside() awaits evaluation and the points are not the current state" << last_iter);
            VF_REQUIRE("C15.pdf-batch", vals.size() == (size_t)c.N, name << ": pdf initialisation passed a values vector of size " << vals.size());
            for (int i = 0; i < c.N; i++) vals[(size_t)i] = c.pdf(&cand[(size_t)(i * c.D)]);
            pv = vals; ctx.count("pdf-init-calls"); return;
        }
        VF_REQUIRE("C15.pdf-batch", n_inside == c.N, name << ": iteration " << t << ": pdf batch arrived after " << n_inside << " of " << c.N << " proposals");
        VF_REQUIRE("C15.pdf-batch", cand.size() == (size_t)(n_valid * c.D) && vals.size() == (size_t)n_valid,
                   name << ": iteration " << t << ": " << n_valid << " proposals are inside the domain but the pdf batch has " << cand.size() << " coordinates and " << vals.size() << " values");
        int k = 0;
        for (int i = 0; i < c.N; i++) if (valid[(size_t)i]) {
            VF_REQUIRE("C15.pdf-batch", same_bits(&cand[(size_t)(k * c.D)], &props[(size_t)(i * c.D)], (size_t)c.D),
                       name << ": iteration " << t << ": candidate " << k << " " << vec9(&cand[(size_t)(k * c.D)], c.D) << " is not the proposal " << vec9(&props[(size_t)(i * c.D)], c.D) << " of chain " << i << " that passed inside()");
            vals[(size_t)k] = c.pdf(&cand[(size_t)(k * c.D)]); k++;
        }
        ctx.count("pdf-batch-oracle");
        finalize(&vals);
    }
    // the accept rule of the property statement; throws Ambiguous when equivalent floating point forms of the rule disagree
    bool rule(double pn, double po, double u) const {
        if (!c.logf) {
            bool a = (pn / po >= u), b = (pn >= u * po);
            if (a != b) throw Ambiguous();
            return a;
        }
        double d = pn - po, lu = std::log(u);
        bool a = (d >= lu);
        if (u == 0.0 || pn == po) return a;   // exact in every form: log(0) = -inf, and 0 >= log(u) for every u in [0,1]
        double band = 16 * std::numeric_limits<double>::epsilon() * (std::fabs(d) + std::fabs(lu) + 1.0);
        if (std::fabs(d - lu) <= band) throw Ambiguous();
        return a;
    }
    void finalize(const std::vector<double> *vals) {
        std::ostringstream o; o << name << " it " << t << (t < burn ? " burn" : " collect");
        int accepted = 0;
        if (vals) {
            VF_REQUIRE("C15.transition", state.isPDFReady() && pv.size() == (size_t)c.N, name << ": no cached pdf values");
            u_t = accept_palette(cur.byte());
            if (u_t == 0.0) F.u0++;
            o << " u=" << decd(u_t);
            n_needed = 0; int k = 0;
            std::vector<double> nst = st, npv = pv;
            for (int i = 0; i < c.N; i++) {
                o << " | c" << i << " " << vec9(&props[(size_t)(i * c.D)], c.D);
                if (!valid[(size_t)i]) { F.outside++; o << " outside"; continue; }
                double pn = (*vals)[(size_t)k++], po = pv[(size_t)i]; bool take;
                if (pn > po) take = true;
                else { n_needed++; take = rule(pn, po, u_t); if (take && pn == po && u_t == 1.0) F.tie_u1++; }
                o << " p " << g9(po) << "->" << g9(pn) << (take ? " ACCEPT" : " reject");
                if (take) { std::copy_n(&props[(size_t)(i * c.D)], c.D, &nst[(size_t)(i * c.D)]); npv[(size_t)i] = pn; accepted++; F.accepted++; }
                else F.rejected++;
                ctx.count("accept-rule-evaluations");
            }
            st.swap(nst); pv.swap(npv);
            accept_phase = true; acc_left = n_needed; acc_draws = 0;
            if (!c.sticky && n_needed == 0) end_accept();
        } else {
            F.outside += c.N; o << " all proposals outside";
        }
        open = false;
        if (t >= burn) { hist.insert(hist.end(), st.begin(), st.end()); hpdf.insert(hpdf.end(), pv.begin(), pv.end()); acc += accepted; F.collected_moves += accepted; }
        t++;
        last_iter = " [" + o.str() + "]";
        say(o.str());
    }

    // ---- one SampleDREAM call with all end-of-call oracles --------------------------------------------------------------------
    template <TasDREAM::TypeSamplingForm form> void sample(int b, int cl) {
        auto pdf = [this](const std::vector<double> &x, std::vector<double> &v) { on_pdf(x, v); };
        auto dom = [this](const std::vector<double> &x) -> bool { return on_inside(x); };
        auto rnd = [this]() -> double { return rng(); };
        std::function<double(void)> wf;
        switch (c.wk) {
        case W_ZERO: wf = TasDREAM::const_percent<0>; break;
        case W_ONE: wf = TasDREAM::const_one; break;
        case W_SCRIPT: wf = [this]() -> double { return on_weight(); }; break;
        default:
            switch (c.percent) {
            case 50: wf = TasDREAM::const_percent<50>; break;
            case 100: wf = TasDREAM::const_percent<100>; break;
            case 65: wf = TasDREAM::const_percent<65>; break;
            case 98: wf = TasDREAM::const_percent<98>; break;
            default: wf = TasDREAM::const_percent<1>; break;
            }
        }
        switch (c.upd) {
        case UPD_DEFAULT: TasDREAM::SampleDREAM<form>(b, cl, pdf, dom, state, TasDREAM::no_update, wf, rnd); break;
        case UPD_DISTNONE: TasDREAM::SampleDREAM<form>(b, cl, pdf, dom, state, c.use_null ? TasDREAM::dist_null : TasDREAM::dist_none, c.mag, wf, rnd); break;
        case UPD_UNIFORM: TasDREAM::SampleDREAM<form>(b, cl, pdf, dom, state, TasDREAM::dist_uniform, c.mag, wf, rnd); break;
        case UPD_GAUSS: TasDREAM::SampleDREAM<form>(b, cl, pdf, dom, state, TasDREAM::dist_gaussian, c.mag, wf, rnd); break;
        default: TasDREAM::SampleDREAM<form>(b, cl, pdf, dom, state, [this](std::vector<double> &x) { on_update(x); }, wf, rnd); break;
        }
    }
    void call(int b, int cl) {
        burn = b; collect = cl; t = 0; open = false;
        size_t h0 = state.getNumHistory(), hs0 = state.getHistory().size();
        VF_REQUIRE("C15.history-size", h0 * (size_t)c.D == hs0 && hs0 == hist.size(), name << ": history sizes before the call: " << h0 << " pdf values, " << hs0 << " coordinates, model " << hist.size());
        say(std::string(name) + " SampleDREAM(burn=" + std::to_string(b) + ", collect=" + std::to_string(cl) + ")");
        if (c.logf) sample<TasDREAM::logform>(b, cl); else sample<TasDREAM::regform>(b, cl);
        VF_REQUIRE("C15.iteration-count", !open && t == b + cl, name << ": the sampler completed " << t << (open ? " (+1 unfinished)" : "") << " iterations for burn-up " << b << " and collect " << cl);
        check_state("after the call");
        // books: history grows by exactly collect x chains, in step with the model
        const std::vector<double> &lh = state.getHistory(), &lp = state.getHistoryPDF();
        VF_REQUIRE("C15.history-size", state.getNumHistory() == h0 + (size_t)(cl * c.N) && lp.size() == h0 + (size_t)(cl * c.N) && lh.size() == hs0 + (size_t)(cl * c.N * c.D),
                   name << ": collect=" << cl << " chains=" << c.N << " dims=" << c.D << " but the history went from " << h0 << " to " << state.getNumHistory() << " samples (" << lh.size() << " coordinates, " << lp.size() << " pdf values)");
        std::vector<double> x((size_t)c.D);
        for (size_t i = 0; i < lp.size(); i++) {
            std::copy_n(&lh[i * (size_t)c.D], c.D, x.begin());
            VF_REQUIRE("C15.sample-in-domain", c.inside(x), name << ": recorded sample #" << i << " " << vec9(x.data(), c.D) << " fails the domain test");
            double p = c.pdf(x.data());
            VF_REQUIRE("C15.history-pdf", same_bits(&p, &lp[i], 1), name << ": recorded pdf value of sample #" << i << " " << vec9(x.data(), c.D) << " is " << decd(lp[i]) << " but the pdf there is " << decd(p));
            ctx.count("history-sample-oracle");
        }
        VF_REQUIRE("C15.history-content", same_bits(lh, hist), name << ": recorded samples differ from the states produced by the accept rule in the collected iterations" << first_diff(lh, hist, c.D));
        VF_REQUIRE("C15.history-content", same_bits(lp, hpdf), name << ": recorded pdf values differ from those of the model" << first_diff(lp, hpdf, 1));
        double rate = state.getAcceptanceRate(), want = hpdf.empty() ? 0.0 : (double)acc / (double)hpdf.size();
        VF_REQUIRE("C15.acceptance-counter", same_bits(&rate, &want, 1), name << ": getAcceptanceRate()=" << decd(rate) << " but " << acc << " proposals were accepted in the collected iterations over " << hpdf.size() << " recorded samples (" << decd(want) << ")");
        ctx.count("call-oracles");
    }
    static std::string first_diff(const std::vector<double> &a, const std::vector<double> &b, int d) {
        size_t n = std::min(a.size(), b.size());
        for (size_t i = 0; i < n; i++) if (std::memcmp(&a[i], &b[i], sizeof(double)) != 0) return "; first difference at sample " + std::to_string(i / (size_t)d) + ": " + decd(a[i]) + " vs " + decd(b[i]);
        return "; sizes " + std::to_string(a.size()) + " vs " + std::to_string(b.size());
    }
};

} // namespace

void check_C15(Src &s, Ctx &ctx) {
    Cfg c = decode(s);
    ctx.log(c.text());
    Facts F;
    {   // the initial state is inside the domain by construction (precondition of the property)
        std::vector<double> x((size_t)c.D);
        for (int i = 0; i < c.N; i++) { std::copy_n(&c.init[(size_t)(i * c.D)], c.D, x.begin()); if (!c.inside(x)) throw std::logic_error("C15 generator: initial state outside the domain"); }
    }
    bool ambiguous = false;
    try {
        Run A(c, ctx, F, s, true, "A");
        A.call(c.burn, c.collect);
        if (c.split >= 0) {
            Run B(c, ctx, F, s, false, "B");
            int b1, c1, b2, c2;
            if (c.split <= c.burn) { b1 = c.split; c1 = 0; b2 = c.burn - c.split; c2 = c.collect; }
            else { b1 = c.burn; c1 = c.split - c.burn; b2 = 0; c2 = c.collect - c1; }
            ctx.log("split: (" + std::to_string(b1) + "," + std::to_string(c1) + ") then (" + std::to_string(b2) + "," + std::to_string(c2) + ")");
            B.call(b1, c1); B.call(b2, c2);
            VF_REQUIRE("C15.split-equals-single", same_bits(A.state.getChainState(), B.state.getChainState()), "final chain state of the split run differs from the single run");
            for (int i = 0; i < c.N; i++) { double a = A.state.getPDFvalue((size_t)i), b = B.state.getPDFvalue((size_t)i); VF_REQUIRE("C15.split-equals-single", same_bits(&a, &b, 1), "cached pdf value of chain " << i << " differs between split and single run"); }
            VF_REQUIRE("C15.split-equals-single", same_bits(A.state.getHistory(), B.state.getHistory()), "history of the split run differs from the single run" << Run::first_diff(B.state.getHistory(), A.state.getHistory(), c.D));
            VF_REQUIRE("C15.split-equals-single", same_bits(A.state.getHistoryPDF(), B.state.getHistoryPDF()), "pdf history of the split run differs from the single run");
            double ra = A.state.getAcceptanceRate(), rb = B.state.getAcceptanceRate();
            VF_REQUIRE("C15.split-equals-single", same_bits(&ra, &rb, 1), "acceptance rate of the split run " << decd(rb) << " differs from the single run " << decd(ra));
            VF_REQUIRE("C15.split-equals-single", A.cur.i == B.cur.i && A.n_draws == B.n_draws, "the split run consumed " << B.n_draws << " uniform draws, the single run " << A.n_draws);
            ctx.count("split-oracle");
            ctx.label(c.split <= c.burn ? "split:in-burnup" : "split:in-collect");
        } else ctx.label("split:none");
        ctx.count("rng-draws", A.n_draws);
    } catch (Ambiguous &) { ambiguous = true; }
    if (ambiguous) { ctx.label("ambiguous-tie"); ctx.log("abandoned: razor-edge tie of the accept rule"); return; }

    ctx.label("chains:" + std::to_string(c.N)); ctx.label("dims:" + std::to_string(c.D)); ctx.label(c.logf ? "form:log" : "form:reg");
    ctx.label(std::string("upd:") + upd_name[c.upd]); ctx.label(std::string("weight:") + w_name[c.wk]); ctx.label(std::string("dom:") + dom_name[c.dom]);
    ctx.label(std::string("pdf:") + pdf_name[c.pdfk]); ctx.label(c.sticky ? "accept:sticky" : "accept:counted"); ctx.label("init-mode:" + std::to_string(c.init_mode));
    if (c.burn == 0) ctx.label("burn:0"); if (c.collect == 0) ctx.label("collect:0");
    if (F.accepted) ctx.label("some-accepted"); if (F.rejected) ctx.label("some-rejected"); if (F.outside) ctx.label("some-outside");
    if (F.accepted && F.rejected) ctx.label("accepted+rejected");
    if (F.idx0) ctx.label("idx-draw:0.0"); if (F.idx1) ctx.label("idx-draw:1.0"); if (F.k1) ctx.label("k-draw:1.0"); if (F.j1) ctx.label("j-draw:1.0");
    if (F.tie_u1) ctx.label("tie:equal-pdf,u=1"); if (F.u0) ctx.label("accept-u:0.0"); if (F.all_outside_iters) ctx.label("iter:all-outside"); if (F.nonfinite) ctx.label("proposal:non-finite");
    if (F.collected_moves) ctx.label("collected-move");
    ctx.nontrivial = c.N >= 2 && c.collect >= 1 && ((F.accepted > 0 && F.rejected > 0) || F.idx0 || F.idx1);
}
VF_REGISTER(C15, check_C15, "chains 1-6 x dims 1-3 x regular/log form x independent update {default, dist_none/dist_null, uniform, gaussian, user lambda} x differential weight "
            "{const_percent<0>, const_percent<P>, const_one, scripted lambda} x burn-up 0-6 x collect 0-6 x optional split into two consecutive calls x domain {everything, hypercube, "
            "half-space, initial-states-only, own box} x strictly positive pdf {cauchy, power-of-two table, clamped gaussian}; the uniform generator is scripted from the case bytes "
            "(palette with exactly 0.0 and exactly 1.0, 3/16 each per draw) and is held constant during the acceptance phase of an iteration; "
            "non-trivial = at least 2 chains, at least 1 collected iteration, and (at least one accepted and one rejected in-domain proposal, or an index draw equal to 0.0 or mapping to num_chains)");

} // namespace vf
