// C19 - GradientDescent returns its best accepted iterate within the iteration cap.
//
// One case = one generated problem (objective, gradient, projection, feasible start, increase/decrease coefficients, initial
// step, tolerance) that is run with EVERY iteration cap 0..N through the adaptive GradientDescent (projected overload, or the
// overload without a projection), plus - for objectives with a bounded Hessian - the constant step overload for every cap 0..N.
// All oracles are evaluated from a log of the objective / gradient / projection callbacks.
//
// What the library documents / implements (tsgGradientDescent.cpp, adaptive variant), and what the harness recomputes:
//   a trial point ("candidate") is  xs = proj(x0 - s * grad f(x0))  for the current iterate x0 and the current step s;
//   it PASSES THE DESCENT TEST iff
//        f(xs) - f(x0) - <grad f(x0), xs - x0>   <=   |xs - x0|^2 / (2 s)  +  TasGrid::Maths::num_tol          (num_tol = 1e-12)
//   ("the well-known descent inequality", gamma_u in Nesterov 2013); a candidate that fails is retried from the same x0 with s/decrease_coeff,
//   a candidate that passes becomes the iterate, and the next line search starts with s*increase_coeff (the very first one with the
//   initial step: the code divides by increase_coeff once before the loop). Every trial counts as one performed iteration.
//   The harness mirrors this step arithmetic operation by operation (s0/inc, *inc per outer iteration, /dec per trial, *dec after an
//   acceptance) and guards the mirror with the logged projection input z = x0 - s*grad f(x0) (oracle C19.step-model, rounding tolerance).
// The library's decision for a candidate is read off the log (a gradient call at the candidate follows an acceptance) and must agree
// with the recomputed inequality outside a rounding band; inside the band either decision is taken as correct.
#include "common.hpp"
#include "TasmanianOptimization.hpp"

namespace vf {
namespace {
using Vec = std::vector<double>;
const double EPS = std::numeric_limits<double>::epsilon();

bool same_bits(const Vec &a, const Vec &b) { return a.size() == b.size() && (a.empty() || std::memcmp(a.data(), b.data(), a.size() * sizeof(double)) == 0); }
// signed lattice value: 0, +step, -step, +2 step, ... (0 is the simplest choice)
double sgrid(Src &s, int n, double step) { int k = s.pick(2 * n + 1); int mag = (k + 1) / 2; return ((k & 1) ? 1.0 : -1.0) * mag * step + 0.0; }

enum { O_QDIAG = 0, O_QROT, O_ROSEN, O_TRIG };
enum { P_NONE = 0, P_IDENT, P_BOX, P_BALL, P_HALF };

struct Problem {
    int d = 1, obj = O_QDIAG, proj = P_NONE;
    Vec a, c; double c1 = 1, s1 = 0, c2 = 1, s2 = 0, kappa = 1;   // quadratics: eigenvalues, centre, rotation
    double rb = 1;                                                // Rosenbrock-like weight
    Vec w, p;                                                     // trigonometric: frequencies, phases
    Vec lo, hi, bc, ha; double br = 1, hb = 0;                    // projections
    double L = 1;                                                 // bound of the Hessian norm (quadratics: exact)

    void rot(Vec &t, bool inverse) const {   // y = Q t (or Q^T t): Givens rotations in the planes (0,1) and (1,2)
        auto g = [&](int i, int j, double cc, double ss) { double u = t[(size_t)i], v = t[(size_t)j]; t[(size_t)i] = cc * u - ss * v; t[(size_t)j] = ss * u + cc * v; };
        if (d < 2) return;
        if (!inverse) { g(0, 1, c1, s1); if (d > 2) g(1, 2, c2, s2); }
        else { if (d > 2) g(1, 2, c2, -s2); g(0, 1, c1, -s1); }
    }
    double f(const Vec &x) const {
        size_t n = (size_t)d; double r = 0;
        switch (obj) {
        case O_QDIAG: for (size_t j = 0; j < n; j++) r += 0.5 * a[j] * (x[j] - c[j]) * (x[j] - c[j]); return r;
        case O_QROT: { Vec t(n); for (size_t j = 0; j < n; j++) t[j] = x[j] - c[j]; rot(t, false); for (size_t j = 0; j < n; j++) r += 0.5 * a[j] * t[j] * t[j]; return r; }
        case O_ROSEN:
            if (d == 1) { double q = x[0] * x[0] - 1.0; return rb * q * q + (1.0 - x[0]) * (1.0 - x[0]); }
            for (size_t j = 0; j + 1 < n; j++) { double q = x[j + 1] - x[j] * x[j]; r += rb * q * q + (1.0 - x[j]) * (1.0 - x[j]); } return r;
        default:
            for (size_t j = 0; j < n; j++) r += std::sin(w[j] * x[j] + p[j]) + 0.05 * x[j] * x[j];
            if (d > 1) r += std::cos(x[0] - x[1]);
            return r;
        }
    }
    void g(const Vec &x, Vec &out) const {
        size_t n = (size_t)d;
        switch (obj) {
        case O_QDIAG: for (size_t j = 0; j < n; j++) out[j] = a[j] * (x[j] - c[j]); return;
        case O_QROT: { Vec t(n); for (size_t j = 0; j < n; j++) t[j] = x[j] - c[j]; rot(t, false); for (size_t j = 0; j < n; j++) t[j] *= a[j]; rot(t, true); for (size_t j = 0; j < n; j++) out[j] = t[j]; return; }
        case O_ROSEN:
            if (d == 1) { double q = x[0] * x[0] - 1.0; out[0] = 4.0 * rb * q * x[0] - 2.0 * (1.0 - x[0]); return; }
            for (size_t j = 0; j < n; j++) out[j] = 0.0;
            for (size_t j = 0; j + 1 < n; j++) { double q = x[j + 1] - x[j] * x[j]; out[j] += -4.0 * rb * q * x[j] - 2.0 * (1.0 - x[j]); out[j + 1] += 2.0 * rb * q; } return;
        default:
            for (size_t j = 0; j < n; j++) out[j] = w[j] * std::cos(w[j] * x[j] + p[j]) + 0.1 * x[j];
            if (d > 1) { double sn = std::sin(x[0] - x[1]); out[0] -= sn; out[1] += sn; }
            return;
        }
    }
    // exact (up to rounding) orthogonal projections onto convex sets
    void project(const Vec &x, Vec &y) const {
        size_t n = (size_t)d;
        switch (proj) {
        case P_BOX: for (size_t j = 0; j < n; j++) y[j] = std::min(std::max(x[j], lo[j]), hi[j]); return;
        case P_BALL: { double r2 = 0; for (size_t j = 0; j < n; j++) r2 += (x[j] - bc[j]) * (x[j] - bc[j]); double r = std::sqrt(r2);
            if (r <= br) { for (size_t j = 0; j < n; j++) y[j] = x[j]; } else { double q = br / r; for (size_t j = 0; j < n; j++) y[j] = bc[j] + (x[j] - bc[j]) * q; } return; }
        case P_HALF: { double t = -hb, nn = 0; for (size_t j = 0; j < n; j++) { t += ha[j] * x[j]; nn += ha[j] * ha[j]; }
            if (t <= 0) { for (size_t j = 0; j < n; j++) y[j] = x[j]; } else { double q = t / nn; for (size_t j = 0; j < n; j++) y[j] = x[j] - q * ha[j]; } return; }
        default: for (size_t j = 0; j < n; j++) y[j] = x[j]; return;
        }
    }
    double dom_scale() const { double m = 0; if (proj == P_BALL) { for (double v : bc) m = std::max(m, std::fabs(v)); m += br; } return m; }
    std::string text() const {
        static const char *on[] = {"quad-diag", "quad-rot", "rosenbrock", "trig"}; static const char *pn[] = {"none(overload)", "identity", "box", "ball", "halfspace"};
        std::ostringstream o; o << "objective=" << on[obj] << " d=" << d;
        if (obj <= O_QROT) { o << " eig=(" << joind(a) << ") centre=(" << joind(c) << ")"; if (obj == O_QROT) o << " cos/sin=(" << decd(c1) << "," << decd(s1) << ";" << decd(c2) << "," << decd(s2) << ")"; }
        if (obj == O_ROSEN) o << " b=" << rb;
        if (obj == O_TRIG) o << " w=(" << joind(w) << ") phase=(" << joind(p) << ")";
        o << " projection=" << pn[proj];
        if (proj == P_BOX) o << " lo=(" << joind(lo) << ") hi=(" << joind(hi) << ")";
        if (proj == P_BALL) o << " centre=(" << joind(bc) << ") r=" << br;
        if (proj == P_HALF) o << " a=(" << joind(ha) << ") b=" << hb;
        return o.str();
    }
};

struct Ev { char k; Vec x, y; double v; };

struct RunSummary { int performed = 0, n_acc = 0; bool cap_in_linesearch = false, excluded = false, stopped_by_tol = false; double fres = 0; };

// data-derived rounding scales over the accepted chain: |f|, |grad f|, |x| and |z| (z = the point handed to the projection: the projection of z
// is exact only up to eps*|z|, so with a large step s an accepted point is off by about eps*s*|grad f| and f can move by |grad f| times that)
struct Scales { double F = 0, G = 0, X = 0, Z = 0; void point(const Vec &x, double f, const Vec &g) { F = std::max(F, std::fabs(f)); for (double v : x) X = std::max(X, std::fabs(v)); for (double v : g) G = std::max(G, std::fabs(v)); }
    double round_tol(int d) const { return 256.0 * EPS * (F + (double)d * G * std::max(1.0, X)) + 8.0 * EPS * (double)d * G * Z; } };

} // namespace

void check_C19(Src &s, Ctx &ctx) {
    Problem P; size_t n;
    P.d = 1 + s.pick(3); n = (size_t)P.d;
    P.obj = s.weighted({3, 3, 2, 2});
    int e = s.pick(5); P.kappa = std::pow(10.0, e); bool rev = s.chance(1, 3);
    P.a.assign(n, 1.0); if (P.d == 1) P.a[0] = P.kappa; else { P.a[n - 1] = P.kappa; if (P.d == 3) P.a[1] = std::sqrt(P.kappa); if (rev) std::reverse(P.a.begin(), P.a.end()); }
    P.c.resize(n); for (auto &v : P.c) v = sgrid(s, 4, 0.5);
    { double t1 = 0.1 + 0.2 * s.pick(15), t2 = 0.1 + 0.2 * s.pick(15); P.c1 = std::cos(t1); P.s1 = std::sin(t1); P.c2 = std::cos(t2); P.s2 = std::sin(t2); }
    P.rb = s.of(std::vector<double>{1.0, 10.0, 100.0});
    P.w.resize(n); P.p.resize(n); for (size_t j = 0; j < n; j++) { P.w[j] = 0.5 * (1 + s.pick(6)); P.p[j] = 0.25 * s.pick(16); }
    if (P.obj <= O_QROT) P.L = P.kappa; else if (P.obj == O_TRIG) { double wm = 0; for (double v : P.w) wm = std::max(wm, v * v); P.L = wm + 0.1 + 2.0; }
    Vec raw(n); for (auto &v : raw) v = sgrid(s, 8, 0.5) + 0.5 * (s.byte() / 256.0);
    P.proj = s.weighted({2, 1, 3, 2, 2});
    P.lo.resize(n); P.hi.resize(n); P.bc.resize(n); P.ha.resize(n);
    if (P.proj == P_BOX) for (size_t j = 0; j < n; j++) { double m = sgrid(s, 4, 0.5), h = 0.25 * (1 + s.pick(8)); P.lo[j] = m - h; P.hi[j] = m + h; }
    if (P.proj == P_BALL) { for (auto &v : P.bc) v = sgrid(s, 4, 0.5); P.br = 0.25 * (1 + s.pick(12)); }
    if (P.proj == P_HALF) { bool nz = false; for (auto &v : P.ha) { v = sgrid(s, 2, 1.0); nz = nz || v != 0.0; } if (!nz) P.ha[0] = 1.0; P.hb = sgrid(s, 6, 0.5); }
    Vec start(n); P.project(raw, start);   // feasible start: the precondition of the projected method (f(result) <= f(start) is a consequence of the descent test only then)
    static const std::vector<double> coeffs = {2.0, 1.25, 1.5, 4.0, 10.0, 1.01};
    static const std::vector<double> incs = {2.0, 4.0, 10.0, 1.5, 1.25, 1.01}, steps0 = {1.0, 10.0, 0.1, 0.01, 100.0, 1e-3, 1e-4}, tols = {0.0, 1e-12, 1e-6, 1e-3, 0.1, 1.0};
    double inc = incs[(size_t)s.weighted({3, 3, 2, 2, 1, 1})], dec = s.of(coeffs);   // weights: line searches that reject often make the cap land inside a line search
    double Lh = (P.obj == O_ROSEN) ? 50.0 * P.rb : P.L;   // rough curvature scale: the initial step is generated relative to 1/Lh so that the first acceptance comes early
    double s0 = steps0[(size_t)s.weighted({3, 2, 2, 2, 1, 1, 1})] * (s.chance(1, 4) ? 1.0 : 4.0 / Lh);
    double tol = tols[(size_t)s.weighted({5, 2, 2, 1, 1, 1})];
    int N = 5 + s.pick(36);
    bool do_const = P.obj != O_ROSEN;
    double cfac = s.of(std::vector<double>{1.0, 0.5, 1.5, 1.9, 1.99, 2.01, 2.1, 3.0, 0.1}); double ctol = s.of(std::vector<double>{0.0, 1e-8, 1e-3, 0.1, 1.0, 10.0}); bool via_state = s.chance(1, 2);

    { std::ostringstream o; o << P.text() << "\nstart=(" << joind(start) << ") increase=" << inc << " decrease=" << dec << " step0=" << s0 << " tolerance=" << tol << " caps=0.." << N; ctx.log(o.str()); }
    static const char *on[] = {"obj:quad-diag", "obj:quad-rot", "obj:rosenbrock", "obj:trig"}; static const char *pn[] = {"proj:none-overload", "proj:identity", "proj:box", "proj:ball", "proj:halfspace"};
    ctx.label(on[P.obj]); ctx.label(pn[P.proj]); if (P.obj <= O_QROT && P.d > 1) ctx.label("cond:1e" + std::to_string(e));

    const double num_tol = TasGrid::Maths::num_tol;
    std::vector<Ev> log;
    TasOptimization::ObjectiveFunctionSingle fL = [&](const Vec &x) -> double { double v = P.f(x); log.push_back({'F', x, {}, v}); return v; };
    TasOptimization::GradientFunctionSingle gL = [&](const Vec &x, Vec &g) { P.g(x, g); log.push_back({'G', x, g, 0.0}); };
    TasOptimization::ProjectionFunctionSingle pL = [&](const Vec &x, Vec &y) { P.project(x, y); log.push_back({'P', x, y, 0.0}); };

    const double fstart = P.f(start); Vec gstart(n); P.g(start, gstart);
    Scales sc; sc.point(start, fstart, gstart); sc.X = std::max(sc.X, P.dom_scale());
    std::vector<RunSummary> runs;
    int excl_state = -1;   // known-finding class (cap reached inside a line search after an accepted step): asked once per case
    bool any_nt = false, any_tol_stop = false;

    for (int cap = 0; cap <= N; cap++) {
        log.clear();
        TasOptimization::GradientDescentState st(start, s0);
        TasOptimization::OptimizationStatus status = (P.proj == P_NONE) ? TasOptimization::GradientDescent(fL, gL, inc, dec, cap, tol, st)
                                                                      : TasOptimization::GradientDescent(fL, gL, pL, inc, dec, cap, tol, st);
        Vec result = st.getX();
        ctx.count("adaptive-runs");
        // ---- candidates from the log
        struct Cand { Vec z, x; size_t at; };
        std::vector<Cand> cands;
        if (P.proj != P_NONE) { for (size_t i = 0; i < log.size(); i++) if (log[i].k == 'P') cands.push_back({log[i].x, log[i].y, i}); }
        else { bool first = true; for (size_t i = 0; i < log.size(); i++) if (log[i].k == 'F') { if (first) { first = false; continue; } cands.push_back({log[i].x, log[i].x, i}); } }
        VF_REQUIRE("C19.iteration-cap", status.performed_iterations <= cap && (int)cands.size() <= cap,
                   "cap " << cap << ": performed_iterations=" << status.performed_iterations << ", trial points in the callback log=" << cands.size());
        VF_REQUIRE("C19.iteration-count", status.performed_iterations == (int)cands.size(),
                   "cap " << cap << ": performed_iterations=" << status.performed_iterations << " but the callback log shows " << cands.size() << " trial points");
        // ---- walk the log: library decisions, harness descent test, step mirror
        Vec base = start, gbase = gstart, gtmp(n); double fbase = fstart;
        double step = s0 / inc; bool outer = true;
        int n_acc = 0; long last_acc = -1; bool last_ambiguous = false, last_rejected = false;
        for (size_t k = 0; k < cands.size(); k++) {
            const Cand &c = cands[k];
            if (outer) { step *= inc; outer = false; }
            for (size_t j = 0; j < n; j++) {
                double ze = base[j] - gbase[j] * step;
                VF_REQUIRE("C19.step-model", std::fabs(c.z[j] - ze) <= 16.0 * EPS * (std::fabs(base[j]) + std::fabs(gbase[j] * step)),
                           "cap " << cap << " trial " << k << ": the point handed to the projection (" << joind(c.z) << ") is not x0 - step*grad f(x0) for x0=(" << joind(base) << "), step=" << decd(step)
                           << " of the documented increase/decrease schedule (coordinate " << j << " expected " << decd(ze) << ")");
            }
            double fc = P.f(c.x), lhs = 0, rhs = 0, mag = 0;
            lhs += fc - fbase;
            for (size_t j = 0; j < n; j++) { double delta = c.x[j] - base[j]; rhs += delta * delta / (2.0 * step); lhs -= gbase[j] * delta; mag += std::fabs(gbase[j] * delta); }
            double slack = 64.0 * EPS * (std::fabs(fc) + std::fabs(fbase) + mag + rhs);
            bool clear_pass = lhs <= rhs + num_tol - slack, clear_fail = lhs > rhs + num_tol + slack;
            ctx.count("descent-tests");
            size_t until = (k + 1 < cands.size()) ? cands[k + 1].at : log.size();
            bool lib_acc = false; for (size_t i = c.at + 1; i < until; i++) if (log[i].k == 'G' && same_bits(log[i].x, c.x)) lib_acc = true;
            bool last = (k + 1 == cands.size());
            bool accept;
            if (lib_acc) {
                VF_REQUIRE("C19.descent-test", !clear_fail, "cap " << cap << " trial " << k << ": the library accepted (" << joind(c.x) << ") from x0=(" << joind(base) << ") with step " << decd(step)
                           << " although the descent inequality fails: lhs=" << decd(lhs) << " > rhs+num_tol=" << decd(rhs + num_tol));
                accept = true;
            } else if (!last) {
                VF_REQUIRE("C19.descent-test", !clear_pass, "cap " << cap << " trial " << k << ": the library rejected (" << joind(c.x) << ") from x0=(" << joind(base) << ") with step " << decd(step)
                           << " although the descent inequality holds: lhs=" << decd(lhs) << " <= rhs+num_tol=" << decd(rhs + num_tol));
                accept = false;
            } else {   // last logged trial, no gradient call after it: the harness test decides what the state must hold
                accept = clear_pass; last_ambiguous = !clear_pass && !clear_fail; last_rejected = !accept;
            }
            if (accept) { for (double v : c.z) sc.Z = std::max(sc.Z, std::fabs(v)); base = c.x; fbase = fc; P.g(base, gtmp); gbase = gtmp; sc.point(base, fbase, gbase); n_acc++; last_acc = (long)k; step /= dec; step *= dec; outer = true; }
            else step /= dec;
        }
        RunSummary rs; rs.performed = status.performed_iterations; rs.n_acc = n_acc;
        rs.cap_in_linesearch = !cands.empty() && (int)cands.size() == cap && last_rejected;   // the library did not accept the last trial (no gradient call) and it does not clearly pass: the cap ended a line search
        rs.stopped_by_tol = (int)cands.size() < cap;
        rs.fres = P.f(result);
        bool nt = rs.cap_in_linesearch && n_acc >= 1;
        ctx.count("pairs"); if (nt) { ctx.count("pairs-cap-in-linesearch-after-accept"); any_nt = true; } if (rs.stopped_by_tol) any_tol_stop = true;
        if (nt) { if (excl_state < 0) excl_state = ctx.excl("C19-cap-in-linesearch-stale-iterate") ? 1 : 0; rs.excluded = excl_state == 1; }
        { std::ostringstream o; o << "cap=" << cap << " performed=" << rs.performed << " accepted=" << n_acc << (rs.cap_in_linesearch ? " cap-hit-in-line-search" : (rs.stopped_by_tol ? " stopped-by-tolerance" : "")) << " f(result)=" << decd(rs.fres) << " x=(" << joind(result) << ")";
          ctx.log(o.str()); }
        // ---- the returned state
        bool is_cand = same_bits(result, start); for (auto &c : cands) is_cand = is_cand || same_bits(result, c.x);
        VF_REQUIRE("C19.result-is-candidate", is_cand, "cap " << cap << ": returned x=(" << joind(result) << ") is neither the start nor an output of the projection (" << cands.size() << " trial points logged)");
        if (!rs.excluded) {
            const Vec &expect = last_acc >= 0 ? cands[(size_t)last_acc].x : start;
            bool ok = same_bits(result, expect) || (last_ambiguous && same_bits(result, cands.back().x));
            VF_REQUIRE("C19.result-last-accepted", ok, "cap " << cap << ": " << cands.size() << " trials, " << n_acc << " passed the descent test, the last one that passed is " << (last_acc >= 0 ? "trial " + std::to_string(last_acc) : std::string("none (start)"))
                       << " = (" << joind(expect) << ") with f=" << decd(P.f(expect)) << ", but the state holds (" << joind(result) << ") with f=" << decd(rs.fres) << (rs.cap_in_linesearch ? " [cap reached inside a line search]" : ""));
            ctx.count("result-oracle");
            double t0 = (double)n_acc * (num_tol + sc.round_tol(P.d)) + sc.round_tol(P.d);
            if (t0 > 0) ctx.max_ratio = std::max(ctx.max_ratio, (rs.fres - fstart) / t0);
            VF_REQUIRE("C19.worse-than-start", rs.fres <= fstart + t0, "cap " << cap << ": f(result)=" << decd(rs.fres) << " > f(start)=" << decd(fstart) << " (+" << decd(t0) << "), " << n_acc << " accepted steps");
        }
        runs.push_back(rs);
    }
    // ---- monotone in the cap: a larger cap never returns a worse point (beyond the tolerance of the descent test per additional accepted step)
    for (size_t m = 1; m < runs.size(); m++) { if (runs[m].excluded) continue;
        for (size_t q = 0; q < m; q++) { if (runs[q].excluded) continue;
            double t0 = (double)std::max(0, runs[m].n_acc - runs[q].n_acc) * (num_tol + sc.round_tol(P.d)) + sc.round_tol(P.d);
            ctx.count("cap-pairs");
            VF_REQUIRE("C19.worse-than-smaller-cap", runs[m].fres <= runs[q].fres + t0, "cap " << m << " returns f=" << decd(runs[m].fres) << " (" << runs[m].n_acc << " accepted) but cap " << q << " returned f=" << decd(runs[q].fres)
                       << " (" << runs[q].n_acc << " accepted); tolerance " << decd(t0) << (runs[m].cap_in_linesearch ? "; the larger cap ended inside a line search" : ""));
        } }
    if (any_nt) ctx.label("nt:cap-in-linesearch-after-accept"); if (any_tol_stop) ctx.label("stop:tolerance");
    ctx.nontrivial = any_nt;

    // ---- several calls on ONE state object: adaptive call, the iterate is then moved through the vector reference the state converts to (also what the
    // constant-step overload uses), and a second adaptive call follows; each call is judged on its own: it must start from the current iterate
    // (first objective evaluation at that point) and return a point that is not worse than where it started
    {
        TasOptimization::GradientDescentState st(start, s0);
        int cap1 = 1 + s.pick(std::max(1, N)), cap2 = 1 + s.pick(std::max(1, N)); int mover = s.pick(3);
        log.clear();
        if (P.proj == P_NONE) TasOptimization::GradientDescent(fL, gL, inc, dec, cap1, tol, st); else TasOptimization::GradientDescent(fL, gL, pL, inc, dec, cap1, tol, st);
        Vec moved(n);
        if (mover == 0) { std::vector<double> &xr = st; Vec shifted = xr; for (size_t j = 0; j < n; j++) shifted[j] += sgrid(s, 4, 0.5) + 0.125; P.project(shifted, moved); xr = moved; }
        else if (mover == 1 && P.obj != O_ROSEN) { TasOptimization::GradientDescent(gL, 0.5 / P.L, 1 + s.pick(3), 0.0, st); Vec cur = st.getX(); P.project(cur, moved); std::vector<double> &xr = st; xr = moved; }
        else { Vec shifted = st.getX(); for (size_t j = 0; j < n; j++) shifted[j] -= 0.25 * (double)(1 + s.pick(4)); P.project(shifted, moved); st.setX(moved); }
        double f2 = P.f(moved);
        log.clear();
        if (P.proj == P_NONE) TasOptimization::GradientDescent(fL, gL, inc, dec, cap2, tol, st); else TasOptimization::GradientDescent(fL, gL, pL, inc, dec, cap2, tol, st);
        Vec r2 = st.getX(); double fr2 = P.f(r2);
        { std::ostringstream o; o << "sequence on one state: cap " << cap1 << ", iterate moved by " << (mover == 0 ? "vector reference" : mover == 1 ? "constant-step call + reference" : "setX") << " to (" << joind(moved) << "), cap " << cap2; ctx.log(o.str()); }
        bool evaluated_start = false; for (auto &ev : log) if (ev.k == 'F') { evaluated_start = same_bits(ev.x, moved); break; }
        if (cap2 > 0 && !log.empty()) VF_REQUIRE("C19.sequence-stale-start", evaluated_start, "the second call on the same state did not evaluate the objective at the iterate it was started from (" << joind(moved) << ")");
        // tolerance of the descent test per step of the second call, with the same data-derived rounding scales as above (the projection of z is exact only up to
        // eps*|z|; the step size carried over from the first call can be large, so |z| is taken from the log of this call)
        Scales sq; for (auto &ev : log) { if (ev.k == 'F') sq.F = std::max(sq.F, std::fabs(ev.v)); else if (ev.k == 'G') { for (double v : ev.y) sq.G = std::max(sq.G, std::fabs(v)); for (double v : ev.x) sq.X = std::max(sq.X, std::fabs(v)); }
            else if (ev.k == 'P') for (double v : ev.x) sq.Z = std::max(sq.Z, std::fabs(v)); }
        double tseq = (double)(cap2 + 1) * (num_tol + sq.round_tol(P.d)) + 64 * (num_tol + 1e-13 * std::max(1.0, std::fabs(f2)));
        VF_REQUIRE("C19.sequence-worse-than-start", fr2 <= f2 + tseq, "second call on the same state: started at f=" << decd(f2) << " and returned f=" << decd(fr2) << " (iterate moved by " << (mover == 0 ? "vector reference" : mover == 1 ? "constant-step call" : "setX") << ")");
        ctx.count("sequence-runs"); ctx.label(mover == 0 ? "seq:vector-reference" : mover == 1 ? "seq:constant-step" : "seq:setX");
    }

    // ---- constant step variant: exactly min(cap, first k >= 1 with |grad f(x_k)| <= tol) steps of x_{k+1} = x_k - step * grad f(x_k)
    if (do_const) {
        double stepc = cfac / P.L;
        std::vector<Vec> xs; std::vector<double> res; xs.push_back(raw); res.push_back(0.0);
        Vec g(n);
        for (int k = 0; k < N; k++) { P.g(xs.back(), g); Vec nx = xs.back(); for (size_t j = 0; j < n; j++) nx[j] -= g[j] * stepc; P.g(nx, g); double r = 0; for (size_t j = 0; j < n; j++) r += g[j] * g[j]; xs.push_back(nx); res.push_back(std::sqrt(r)); }
        int kstop = N + 1; for (int k = 1; k <= N; k++) if (res[(size_t)k] <= ctol) { kstop = k; break; }
        { std::ostringstream o; o << "constant-step: x0=(" << joind(raw) << ") step=" << cfac << "/L=" << decd(stepc) << " tolerance=" << ctol << " first-k-reaching-tolerance=" << (kstop <= N ? std::to_string(kstop) : std::string("none")) << (via_state ? " via GradientDescentState" : " via vector"); ctx.log(o.str()); }
        ctx.label(cfac < 2.0 ? "cstep:below-2/L" : "cstep:above-2/L"); if (kstop <= N) ctx.label("cstep:tolerance-reached");
        for (int cap = 0; cap <= N; cap++) {
            log.clear();
            TasOptimization::OptimizationStatus status; Vec out;
            if (via_state) { TasOptimization::GradientDescentState st(raw, 1.0); status = TasOptimization::GradientDescent(gL, stepc, cap, ctol, st); out = st.getX(); }
            else { Vec v = raw; status = TasOptimization::GradientDescent(gL, stepc, cap, ctol, v); out = v; }
            int expect = std::min(cap, kstop);
            ctx.count("const-step-runs");
            VF_REQUIRE("C19.const-step-count", status.performed_iterations == expect, "constant step, cap " << cap << ": performed " << status.performed_iterations << " steps, expected min(cap, first step reaching the tolerance)=" << expect
                       << " (residuals: step " << expect << " -> " << decd(res[(size_t)expect]) << ", tolerance " << decd(ctol) << ")");
            VF_REQUIRE("C19.const-step-state", same_bits(out, xs[(size_t)expect]), "constant step, cap " << cap << ": state (" << joind(out) << ") differs from x_" << expect << "=(" << joind(xs[(size_t)expect]) << ") of the recurrence x - step*grad f(x)");
        }
    }
}
VF_REGISTER(C19, check_C19, "problem = objective (diagonal / rotated convex quadratic with condition number 1..1e4, Rosenbrock-like, non-convex trigonometric; 1-3 dims) x projection (none-overload, identity, box, ball, half-space; "
            "exact projections) x feasible start x increase/decrease coefficients (1.01..10) x initial step (1e-4..100, absolute or times 4/L) x tolerance (0..1); the adaptive GradientDescent is run for EVERY cap 0..N (N=5..40) and every run is checked from "
            "the callback log (cap, result = last trial point that passed the recomputed descent inequality, f(result) <= f(start), monotone in the cap); quadratics and trigonometric objectives also run the constant step overload "
            "(step 0.1/L..3/L, i.e. both sides of 2/L) for every cap 0..N against the harness recurrence; non-trivial = for some cap the cap is reached inside a line search after at least one accepted step");

} // namespace vf
