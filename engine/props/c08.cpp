// C08 - level limits bound every point a grid ever contains or proposes.
// Generator: limits vectors with entries in {-1,0,1,2,3} given at make time, at a later call, replaced, cleared or omitted (persistence)
// x sequences of make / update / anisotropic and surplus refinement (every strategy) / construction candidate requests, all families,
// all depth types (curved types with negative weights included).
// Oracle: limits model (last non-empty limits passed to any call, emptied by clearLevelLimits) == getLevelLimits(); every point that
// appeared since the limits were last set lies, in each direction with a non-negative limit, in the node set of the 1-D grid of the
// same rule built with depth = limit; -1 entries are equivalent to an unreachable limit (metamorphic); every call returns (watchdog).
#include "history.hpp"

namespace vf {
namespace {
using CSet = std::set<Coord>;

// nodes of all 1-D levels <= L for the rule of the spec
const std::vector<double> &nodes1d(const GridSpec &sp, int L) {
    static std::map<std::string, std::vector<double>> cache;
    std::ostringstream k; k << sp.family << "/" << (int)sp.rule << "/" << sp.order << "/" << sp.alpha << "/" << sp.beta << "/" << sp.custom << "/" << L;
    auto it = cache.find(k.str()); if (it != cache.end()) return it->second;
    std::vector<double> v; GridSpec one = sp; one.dims = 1; one.outs = 0; one.type = type_level; one.aw.clear(); one.limits.clear(); one.ta.clear(); one.tb.clear(); one.conformal.clear();
    for (int l = 0; l <= L; l++) { TasmanianSparseGrid g; make_raw(g, one, l, 0); auto p = g.getPoints(); v.insert(v.end(), p.begin(), p.end()); }
    std::sort(v.begin(), v.end());
    return cache[k.str()] = v;
}
bool in_nodes(const std::vector<double> &nodes, double x) {
    auto it = std::lower_bound(nodes.begin(), nodes.end(), x - 1e-12);
    return it != nodes.end() && std::fabs(*it - x) <= 1e-12;
}
void collect(const TasmanianSparseGrid &g, int d, CSet &out) {
    if (g.getNumLoaded()) { auto p = g.getLoadedPoints(); for (size_t i = 0; i < p.size() / (size_t)d; i++) out.insert(coord_of(&p[i * (size_t)d], d)); }
    if (g.getNumNeeded()) { auto p = g.getNeededPoints(); for (size_t i = 0; i < p.size() / (size_t)d; i++) out.insert(coord_of(&p[i * (size_t)d], d)); }
}
} // namespace

void check_C08(Src &s, Ctx &ctx) {
    SpecOpts so; so.min_outs = 1; so.max_outs = 2; so.cap = cfg().tier ? 350 : 250; so.transforms = false; so.conformal = false; so.limits = false;
    GridState st; st.cap = so.cap; st.ctx = &ctx;
    st.spec = decode_spec(s, so); st.vm.decode(s);
    if (s.n >= 3 && (s.p[s.n - 1] % 8) == 5) { st.vm.degenerate = 1 + (s.p[s.n - 2] % 3); ctx.label("model:degenerate"); }   // one case in eight: constant / affine / one-active-direction model (coefficients vanish exactly)
    int d = st.spec.dims;
    // limits at make time: present in 2/3 of the cases; biased towards binding values
    if (s.chance(2, 3)) st.spec.limits = decode_limits(s, d);
    // curved types: make the negative curved weights likely (general, non-lower selection path)
    if (is_curved(st.spec.type) && st.spec.family != F_LOCALP && st.spec.family != F_WAVE && s.chance(1, 2)) { st.spec.aw.clear(); for (int j = 0; j < d; j++) st.spec.aw.push_back(s.range(1, 2)); for (int j = 0; j < d; j++) st.spec.aw.push_back(-s.range(1, 2)); }
    make_grid(st.g, st.spec, so.cap);
    ctx.log(st.spec.text());
    std::vector<int> model = st.spec.limits;
    CSet grandfathered;   // points that existed when the limits were last (re)set: they are not bound by the new limits
    std::vector<char> exempt((size_t)d, 0);   // directions in which an existing point already exceeded the newly set limit: new points inherit such
                                              // coordinates from their parents, and the documentation does not define limits tighter than the grid
    bool binding = false, persisted_used = false, saw_minus1_mix = false, saturated_seen = false;
    auto verify = [&](const char *when, const std::vector<double> *cands) {
        VF_REQUIRE("C08.limits-model", st.g.getLevelLimits() == model, "getLevelLimits() = [" << join(st.g.getLevelLimits()) << "] but the last limits passed were [" << join(model) << "] (after " << when << ")");
        if (model.empty()) return;
        CSet pts; collect(st.g, d, pts);
        if (cands) for (size_t i = 0; i < cands->size() / (size_t)d; i++) pts.insert(coord_of(&(*cands)[i * (size_t)d], d));
        bool has_neg = false, has_nonneg = false; for (int l : model) { if (l < 0) has_neg = true; else has_nonneg = true; } if (has_neg && has_nonneg) saw_minus1_mix = true;
        long checked = 0;
        for (auto &p : pts) { if (grandfathered.count(p)) continue;
            for (int j = 0; j < d; j++) { if (model[(size_t)j] < 0 || exempt[(size_t)j]) continue; checked++;
                VF_REQUIRE("C08.point-beyond-limit", in_nodes(nodes1d(st.spec, model[(size_t)j]), p[(size_t)j]), "point (" << joind(p) << ") has coordinate " << decd(p[(size_t)j]) << " in direction " << j << " which is not a node of 1-D level <= " << model[(size_t)j] << " (limits [" << join(model) << "], after " << when << ")"); } }
        ctx.count("limit-coordinate-checks", checked);
    };
    verify("make", nullptr);
    // is some limit binding? (the unlimited grid of the same spec has a point outside the limited node sets)
    if (!model.empty()) { GridSpec u = st.spec; u.limits.clear(); TasmanianSparseGrid gu; try { make_raw(gu, u, st.spec.depth, 0); if (gu.getNumPoints() <= 20 * so.cap) { auto p = gu.getPoints();
            for (size_t i = 0; i < p.size() / (size_t)d && !binding; i++) for (int j = 0; j < d; j++) if (model[(size_t)j] >= 0 && !in_nodes(nodes1d(st.spec, model[(size_t)j]), p[i * (size_t)d + (size_t)j])) binding = true; } } catch (std::runtime_error &) {} }
    // metamorphic: -1 entries == unreachable limit (only when -1 is mixed with real limits or all -1)
    if (!model.empty()) { bool any_neg = false; for (int l : model) if (l < 0) any_neg = true;
        if (any_neg) { GridSpec a = st.spec, b = st.spec; for (auto &l : b.limits) if (l < 0) l = 25; a.outs = b.outs = 0;
            try { TasmanianSparseGrid ga, gb; make_raw(ga, a, st.spec.depth, 0); make_raw(gb, b, st.spec.depth, 0); ctx.count("minus-one-metamorphic");
                VF_REQUIRE("C08.minus-one-unrestricted", ga.getNumPoints() == gb.getNumPoints() && ga.getPoints() == gb.getPoints(), "limits [" << join(a.limits) << "] give " << ga.getNumPoints() << " points but [" << join(b.limits) << "] (the -1 entries replaced by an unreachable level) give " << gb.getNumPoints()); } catch (std::runtime_error &) {} } }

    static const std::vector<int> kinds = {OP_LOAD, OP_LOAD, OP_REF_SURP, OP_REF_SURP, OP_REF_ANISO, OP_REF_ANISO, OP_UPDATE, OP_UPDATE, OP_CLEAR_REF, OP_CLEAR_LIMITS, OP_BEGIN_CONSTR, OP_CANDIDATES, OP_LOAD_CONSTR, OP_FINISH_CONSTR, OP_ROUNDTRIP, OP_COPY};
    int nops = 2 + s.pick(8);
    for (int i = 0; i < nops; i++) {
        Op op; if (i == 0) op.kind = OP_LOAD;
        else if (st.constructing) { static const std::vector<int> ck = {OP_CANDIDATES, OP_CANDIDATES, OP_LOAD_CONSTR, OP_LOAD_CONSTR, OP_FINISH_CONSTR}; op = decode_op(s, st.spec, ck); }
        else op = decode_op(s, st.spec, kinds);
        bool passes_limits = (op.kind == OP_REF_SURP || op.kind == OP_REF_ANISO || op.kind == OP_UPDATE || op.kind == OP_CANDIDATES) && !op.limits.empty();
        CSet before; collect(st.g, d, before);
        if (!apply_op(st, op)) continue;
        if (op.kind == OP_CLEAR_LIMITS) { model.clear(); grandfathered.clear(); std::fill(exempt.begin(), exempt.end(), 0); }
        else if (passes_limits) {
            if (op.limits != model) { grandfathered = before; std::fill(exempt.begin(), exempt.end(), 0);
                for (auto &p : before) for (int j = 0; j < d; j++) if (op.limits[(size_t)j] >= 0 && !in_nodes(nodes1d(st.spec, op.limits[(size_t)j]), p[(size_t)j])) exempt[(size_t)j] = 1; }
            model = op.limits; }
        else if ((op.kind == OP_REF_SURP || op.kind == OP_REF_ANISO || op.kind == OP_UPDATE || op.kind == OP_CANDIDATES) && !model.empty()) persisted_used = true;
        verify(st.trace.back().c_str(), op.kind == OP_CANDIDATES ? &st.candidates : nullptr);
        if ((op.kind == OP_REF_ANISO || op.kind == OP_UPDATE || op.kind == OP_REF_SURP) && !model.empty() && st.g.getNumNeeded() == 0) { bool all = true; for (int l : model) if (l < 0) all = false; if (all) saturated_seen = true; }
    }
    ctx.label(std::string("fam:") + fam_name(st.spec.family));
    if (is_curved(st.spec.type) && st.spec.family != F_LOCALP && st.spec.family != F_WAVE) ctx.label("type:curved");
    if (binding) ctx.label("limits:binding"); if (persisted_used) ctx.label("limits:persisted-call"); if (saw_minus1_mix) ctx.label("limits:-1-mixed"); if (saturated_seen) ctx.label("limits:saturated-return");
    ctx.nontrivial = binding || saw_minus1_mix;
}
VF_REGISTER(C08, check_C08, "grid spec (all families, all depth types incl. curved with negative weights) x limits at make time / later calls / replaced / cleared / omitted x sequence of 2-9 update/refine/construction ops; "
            "non-trivial = some limit is binding for the initial grid or -1 entries are mixed with non-negative ones");

} // namespace vf
