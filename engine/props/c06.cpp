// C06 - write() then read() restores the complete observable state of a grid.
// Generator: spec x history -> state S; route (bin/ascii x stream/file); fresh or dirty target; continuation ops.
// Oracle: (1) observe(read(write(S))) == observe(S) bitwise; (2) write(read(write(S))) byte-identical;
// (3) binary and ascii restorations agree; (4) continuation on S and on the restored grid gives identical digests
// after every step; (5) file and stream entry points produce the same bytes.
#include "observe.hpp"
#include "history.hpp"

namespace vf {

static std::string write_stream(const TasmanianSparseGrid &g, bool binary) { std::ostringstream o; g.write(o, binary); return o.str(); }
static std::string slurp(const std::string &path) { std::ifstream f(path, std::ios::binary); std::ostringstream o; o << f.rdbuf(); return o.str(); }

static void expect_same(Ctx &ctx, const char *oracle, const Digest &a, const Digest &b, const std::string &what) {
    ctx.count(oracle);
    std::string d = digest_diff(a, b);
    if (!d.empty()) throw Violation(oracle, what + ": " + d);
}

void check_C06(Src &s, Ctx &ctx) {
    SpecOpts so; so.cap = cfg().tier ? 450 : 300;
    GridState st; st.cap = so.cap; st.ctx = &ctx;
    st.spec = decode_spec(s, so); st.vm.decode(s);
    if (s.n >= 3 && (s.p[s.n - 1] % 8) == 5) { st.vm.degenerate = 1 + (s.p[s.n - 2] % 3); ctx.label("model:degenerate"); }   // one case in eight: constant / affine / one-active-direction model (coefficients vanish exactly)
    bool empty_grid = s.chance(1, 40);
    if (!empty_grid) make_grid(st.g, st.spec, so.cap);
    ctx.log(empty_grid ? "EMPTY GRID" : st.spec.text());
    static const std::vector<int> kinds = {OP_LOAD, OP_LOAD, OP_REF_SURP, OP_REF_ANISO, OP_RELOAD, OP_UPDATE, OP_CLEAR_REF, OP_MERGE, OP_SET_COEFF, OP_BEGIN_CONSTR, OP_BEGIN_CONSTR, OP_BEGIN_CONSTR,
        OP_CANDIDATES, OP_LOAD_CONSTR, OP_FINISH_CONSTR, OP_SET_TRANSFORM, OP_CLEAR_TRANSFORM, OP_SET_CONFORMAL, OP_CLEAR_CONFORMAL, OP_CLEAR_LIMITS, OP_REMOVE_BY_COEFF,
        OP_ROUNDTRIP, OP_COPY};
    // histories are biased towards "load first" so that the interesting states are reached with few bytes
    int nops = s.pick(12);
    run_history(s, st, kinds, nops, !s.chance(1, 5), [&](const Op &) {});
    int route = s.pick(4); bool binary = (route % 2 == 1); bool use_file = route >= 2;
    bool dirty = s.chance(1, 3);
    ctx.log(std::string("route=") + (binary ? "bin" : "ascii") + (use_file ? "-file" : "-stream") + (dirty ? " dirty-target" : ""));

    const TasmanianSparseGrid &S = st.g;
    Digest dS = observe(S);
    // classification / non-triviality: which optional sections does the state have
    bool pending = !S.empty() && S.getNumLoaded() > 0 && S.getNumNeeded() > 0;
    bool constr = S.isUsingConstruction();
    bool has_tr = S.isSetDomainTransfrom(), has_cf = S.isSetConformalTransformASIN(), has_lim = !S.getLevelLimits().empty();
    ctx.label(std::string("fam:") + (S.empty() ? "empty" : fam_name(st.spec.family)));
    ctx.label(binary ? "fmt:bin" : "fmt:ascii"); ctx.label(use_file ? "route:file" : "route:stream");
    if (pending) ctx.label("sec:pending"); if (constr) ctx.label("sec:construction"); if (st.spec.custom) ctx.label("sec:custom");
    if (has_tr) ctx.label("sec:transform"); if (has_cf) ctx.label("sec:conformal"); if (has_lim) ctx.label("sec:limits");
    if (!S.empty() && S.getNumOutputs() == 0) ctx.label("sec:zero-outputs"); if (st.removed) ctx.label("sec:removed");
    bool updated = false; for (auto &t : st.trace) if (t.rfind("Update", 0) == 0) updated = true; if (updated) ctx.label("sec:updated");
    if (constr && st.n_constr_loads > 0) ctx.label("sec:construction-with-data");
    ctx.nontrivial = pending || constr || st.spec.custom || has_tr || has_cf || has_lim || updated;

    // (5)+(1)
    std::string W = write_stream(S, binary);
    std::string path = cfg().workdir + "/c06.grid";
    if (use_file) {
        S.write(path.c_str(), binary);
        std::string F = slurp(path); ctx.count("file-vs-stream");
        VF_REQUIRE("C06.file-vs-stream", F == W, "file write produced " << F.size() << " bytes, stream write " << W.size() << " bytes (or different content)");
    }
    TasmanianSparseGrid R;
    if (dirty) { R.makeLocalPolynomialGrid(2, 1, 2, 1, rule_localp); std::vector<double> v((size_t)R.getNumNeeded(), 1.0); R.loadNeededValues(v); R.setDomainTransform({0.0, 0.0}, {1.0, 2.0}); }
    if (use_file) R.read(path.c_str()); else { std::istringstream is(W); R.read(is, binary); }
    expect_same(ctx, "C06.roundtrip-digest", dS, observe(R), "restored grid differs from original");
    // (2)
    { std::string W2 = write_stream(R, binary); ctx.count("rewrite-bytes");
      if (W2 != W) { size_t p = 0; while (p < W.size() && p < W2.size() && W[p] == W2[p]) p++;
          throw Violation("C06.rewrite-bytes", "re-written file differs at byte " + std::to_string(p) + " (sizes " + std::to_string(W.size()) + " vs " + std::to_string(W2.size()) + ")"); } }
    // (3) the other format
    { std::string V = write_stream(S, !binary); std::istringstream is(V); TasmanianSparseGrid R2; R2.read(is, !binary);
      expect_same(ctx, "C06.cross-format-digest", dS, observe(R2), "restoration through the other format differs");
      std::string W3 = write_stream(R2, binary); ctx.count("cross-format-bytes");
      VF_REQUIRE("C06.cross-format-bytes", W3 == W, "writing the grid restored from the other format gives different bytes"); }
    // (4) continuation
    if (!S.empty()) {
        GridState sr = st; sr.g = std::move(R); sr.ctx = nullptr; ctx.log("-- continuation");
        int ncont = 1 + s.pick(4);
        static const std::vector<int> ckinds = {OP_LOAD, OP_REF_SURP, OP_REF_ANISO, OP_RELOAD, OP_UPDATE, OP_CLEAR_REF, OP_MERGE, OP_SET_COEFF, OP_BEGIN_CONSTR, OP_CANDIDATES,
            OP_LOAD_CONSTR, OP_FINISH_CONSTR, OP_CLEAR_LIMITS};
        for (int i = 0; i < ncont; i++) {
            Op op;
            if (i == 0 && st.constructing) { op = decode_op(s, st.spec, {OP_CANDIDATES}); }
            else if (i == 0 && pending) { op.kind = OP_LOAD; }
            else op = decode_op(s, st.spec, ckinds);
            bool a = apply_op(st, op), b = apply_op(sr, op);
            VF_REQUIRE("C06.continuation-legality", a == b, "operation " << op_name(op.kind) << " legal on one side only");
            if (!a) continue;
            VF_REQUIRE("C06.continuation-trace", st.trace.back() == sr.trace.back(), "continuation diverged: " << st.trace.back() << " vs " << sr.trace.back());
            if (op.kind == OP_CANDIDATES) { ctx.count("continuation-candidates");
                VF_REQUIRE("C06.continuation-candidates", st.candidates == sr.candidates, "candidate lists differ after restore (" << st.candidates.size() << " vs " << sr.candidates.size() << " numbers)"); }
            expect_same(ctx, "C06.continuation-digest", observe(st.g), observe(sr.g), "after continuation op " + st.trace.back());
        }
    }
}
VF_REGISTER(C06, check_C06, "grid spec x op history (0-9 ops) x route x target x continuation; non-trivial = the written state has an optional file section "
            "(pending refinement, construction data, custom table, transform, conformal map, level limits, updated tensors); distinct = distinct normalised case text");

} // namespace vf
