// C07 - refinement never loses or mis-associates data and selects what it documents.
// Stateful generation: sequences of load / reload / surplus refinement (all strategies, scale corrections through both overloads)
// / anisotropic refinement / update / merge / clear on all families. Reference model: (set of loaded coordinates, set of needed
// coordinates, dictionary coordinate -> values). Invariants are checked after every step; the classic surplus rule of Local
// Polynomial and Wavelet grids is re-evaluated independently from public getters and the coordinate-based 1-D hierarchy model.
#include "history.hpp"
#include "observe.hpp"

namespace vf {

namespace {
using CSet = std::set<Coord>;
struct Snap { CSet loaded, needed; std::vector<double> lp, np, vals, probe; };

Snap snapshot(Ctx &ctx, const GridState &st, const char *when) {
    Snap s; const auto &g = st.g; int d = st.spec.dims, outs = st.spec.outs;
    if (g.getNumLoaded()) s.lp = g.getLoadedPoints();
    if (g.getNumNeeded()) s.np = g.getNeededPoints();
    for (size_t i = 0; i < s.lp.size() / (size_t)d; i++) VF_REQUIRE("C07.duplicate-loaded", s.loaded.insert(coord_of(&s.lp[i * (size_t)d], d)).second, "duplicate loaded point after " << when);
    for (size_t i = 0; i < s.np.size() / (size_t)d; i++) VF_REQUIRE("C07.duplicate-needed", s.needed.insert(coord_of(&s.np[i * (size_t)d], d)).second, "duplicate needed point after " << when);
    for (auto &c : s.needed) VF_REQUIRE("C07.loaded-needed-overlap", !s.loaded.count(c), "point (" << joind(c) << ") is both loaded and needed after " << when);
    if (g.getNumLoaded() && outs > 0) {
        const double *v = g.getLoadedValues(); s.vals.assign(v, v + (size_t)g.getNumLoaded() * (size_t)outs);
        auto px = probe_points(g, 4); s.probe.resize(4 * (size_t)outs); g.evaluateBatch(px.data(), 4, s.probe.data());
    }
    ctx.count("invariant-steps");
    return s;
}
bool same_bits(const std::vector<double> &a, const std::vector<double> &b) { return a.size() == b.size() && (a.empty() || std::memcmp(a.data(), b.data(), a.size() * sizeof(double)) == 0); }

// values attached to coordinates: every loaded point carries the dictionary entry of its coordinate, bitwise
void check_association(Ctx &ctx, const GridState &st, const Snap &s, const char *when) {
    if (!st.dict_valid || s.vals.empty()) return;
    int d = st.spec.dims, outs = st.spec.outs; size_t n = s.lp.size() / (size_t)d;
    for (size_t i = 0; i < n; i++) {
        auto it = st.dict.find(coord_of(&s.lp[i * (size_t)d], d));
        VF_REQUIRE("C07.value-association", it != st.dict.end(), "loaded point (" << joind(Coord(s.lp.begin() + (long)(i * (size_t)d), s.lp.begin() + (long)((i + 1) * (size_t)d))) << ") has no supplied value after " << when);
        for (int k = 0; k < outs; k++) VF_REQUIRE("C07.value-association", std::memcmp(&it->second[(size_t)k], &s.vals[i * (size_t)outs + (size_t)k], sizeof(double)) == 0,
            "value of point #" << i << " (" << joind(it->first) << ") output " << k << " is " << decd(s.vals[i * (size_t)outs + (size_t)k]) << " but " << decd(it->second[(size_t)k]) << " was supplied for that coordinate (after " << when << ")");
    }
    ctx.count("association-points", (long)n);
}

// classic surplus refinement with an oracle: returns the executed-op text
struct ClassicOp { int output; bool use_scale; bool vector_overload; int tol_sel; std::vector<int> limits; };

void classic_refine(Ctx &ctx, GridState &st, const ClassicOp &co) {
    auto &g = st.g; int d = st.spec.dims, outs = st.spec.outs, n = g.getNumLoaded();
    int out = std::min(co.output, outs - 1); int active = (out == -1) ? outs : 1;
    bool lp = st.spec.family == F_LOCALP;
    std::vector<double> scale;
    if (co.use_scale && lp) { scale.resize((size_t)n * (size_t)active); for (size_t i = 0; i < scale.size(); i++) scale[i] = 0.125 * (double)(1 + (i * 5 + (size_t)co.tol_sel) % 16); }
    // criterion per loaded point from public getters
    const double *coef = g.getHierarchicalCoefficients(); const double *val = g.getLoadedValues();
    std::vector<double> norm((size_t)outs, 0.0); for (int i = 0; i < n; i++) for (int k = 0; k < outs; k++) norm[(size_t)k] = std::max(norm[(size_t)k], std::fabs(val[(size_t)i * (size_t)outs + (size_t)k]));
    for (double nk : norm) if (!(nk > 0.0)) return;   // all-zero output (e.g. right after a merge): the normalised criterion is undefined
    std::vector<double> crit((size_t)n, 0.0);
    for (int i = 0; i < n; i++) for (int a = 0; a < active; a++) { int k = (out == -1) ? a : out; double sc = scale.empty() ? 1.0 : scale[(size_t)i * (size_t)active + (size_t)a];
        crit[(size_t)i] = std::max(crit[(size_t)i], sc * std::fabs(coef[(size_t)i * (size_t)outs + (size_t)k]) / norm[(size_t)k]); }
    // tolerance away from ties: 0, above everything, or the midpoint of a gap between consecutive distinct criteria
    std::vector<double> sorted = crit; std::sort(sorted.begin(), sorted.end()); sorted.erase(std::unique(sorted.begin(), sorted.end()), sorted.end());
    std::vector<double> gaps; for (size_t i = 0; i + 1 < sorted.size(); i++) if (sorted[i + 1] > sorted[i] * (1.0 + 1e-6) + 1e-13) gaps.push_back(0.5 * (sorted[i] + sorted[i + 1]));
    double tol; int mode = co.tol_sel % 4;
    if (mode == 0 || gaps.empty()) tol = (co.tol_sel % 8 < 4) ? 0.0 : (sorted.back() * 2.0 + 1.0); else tol = gaps[(size_t)(co.tol_sel / 4) % gaps.size()];
    for (double c : crit) if (tol > 0 && std::fabs(c - tol) <= 1e-9 * tol) return;   // (cannot happen by construction)
    std::vector<int> limits = co.limits;
    std::vector<int> eff = limits.empty() ? g.getLevelLimits() : limits;
    // expected needed set (canonical coordinates)
    std::vector<double> clp, cnp; canonical_points(g, clp, cnp);
    CSet cl; for (int i = 0; i < n; i++) cl.insert(coord_of(&clp[(size_t)i * (size_t)d], d));
    h1d::Kind kind = h1d_kind(st.spec); bool order0 = lp && st.spec.order == 0;
    CSet expect;
    const int *idx = order0 ? g.getPointsIndexes() : nullptr;
    std::map<std::vector<int>, Coord> idx2c;   // order 0 only: library index arithmetic for the children (stated weakness)
    for (int i = 0; i < n; i++) {
        bool flagged = (tol == 0.0) || crit[(size_t)i] > tol;
        if (!flagged) continue;
        Coord p = coord_of(&clp[(size_t)i * (size_t)d], d);
        for (int j = 0; j < d; j++) {
            std::vector<double> kids; std::vector<int> klev;
            if (!order0) { for (double c : h1d::children(kind, p[(size_t)j])) { kids.push_back(c); klev.push_back(h1d::level(kind, c)); } }
            else { int pi = idx[(size_t)i * (size_t)d + (size_t)j]; for (int kk = 0; kk < 4; kk++) { int ki = RuleLocal::getKid<RuleLocal::erule::pwc>(pi, kk); if (ki < 0) continue;
                       kids.push_back(RuleLocal::getNode<RuleLocal::erule::pwc>(ki)); klev.push_back(RuleLocal::getLevel<RuleLocal::erule::pwc>(ki)); } }
            for (size_t q = 0; q < kids.size(); q++) {
                if (!eff.empty() && eff[(size_t)j] >= 0 && klev[q] > eff[(size_t)j]) continue;
                Coord c = p; c[(size_t)j] = kids[q] + 0.0; if (!cl.count(c)) expect.insert(c);
            }
        }
    }
    // call through the chosen overload
    std::ostringstream t; t << "RefSurpClassic(tol=" << decd(tol) << ",out=" << out << lim_text(limits) << (scale.empty() ? "" : " scale") << (co.vector_overload ? " vector-overload" : " raw-overload") << ")";
    ctx.log(t.str()); st.trace.push_back(t.str());
    if (co.vector_overload) g.setSurplusRefinement(tol, refine_classic, out, limits, scale);
    else g.setSurplusRefinement(tol, refine_classic, out, limits.empty() ? nullptr : limits.data(), scale.empty() ? nullptr : scale.data());
    st.n_refine++;
    std::vector<double> l2, n2; canonical_points(g, l2, n2);
    CSet got; for (size_t i = 0; i < n2.size() / (size_t)d; i++) got.insert(coord_of(&n2[i * (size_t)d], d));
    for (auto &c : expect) VF_REQUIRE("C07.classic-missing-child", got.count(c), "classic refinement did not propose the admissible child (" << joind(c) << ") [canonical] of a flagged point; proposed " << got.size() << ", expected " << expect.size());
    for (auto &c : got) VF_REQUIRE("C07.classic-unexpected-point", expect.count(c), "classic refinement proposed (" << joind(c) << ") [canonical] which is not an admissible child of a flagged point; proposed " << got.size() << ", expected " << expect.size());
    if (tol > sorted.back()) VF_REQUIRE("C07.classic-nothing-above-max", g.getNumNeeded() == 0, "tolerance above every criterion but " << g.getNumNeeded() << " points proposed");
    ctx.count("classic-oracle"); ctx.label(tol == 0.0 ? "classic:tol0" : (tol > sorted.back() ? "classic:tol-above" : "classic:tol-gap"));
    if (!scale.empty()) ctx.label(co.vector_overload ? "scale:vector" : "scale:raw");
    st.enforce_cap();
}
} // namespace

void check_C07(Src &s, Ctx &ctx) {
    SpecOpts so; so.min_outs = 1; so.max_outs = 3; so.cap = cfg().tier ? 350 : 250; so.custom = false; so.conformal = true;
    GridState st; st.cap = so.cap; st.ctx = &ctx;
    st.spec = decode_spec(s, so); st.vm.decode(s);
    // one case in eight (from the last byte, consumes nothing): a model whose hierarchical coefficients vanish exactly at many points (constant, affine, one active direction)
    if (s.n >= 3 && (s.p[s.n - 1] % 8) == 3) { st.vm.degenerate = 1 + (s.p[s.n - 2] % 3); ctx.label("model:degenerate"); }
    make_grid(st.g, st.spec, so.cap);
    ctx.log(st.spec.text()); ctx.log(st.vm.text());
    static const std::vector<int> kinds = {OP_LOAD, OP_LOAD, OP_LOAD, OP_REF_SURP, OP_REF_SURP, OP_REF_ANISO, OP_REF_ANISO, OP_RELOAD, OP_UPDATE, OP_UPDATE, OP_CLEAR_REF, OP_MERGE, OP_CLEAR_LIMITS};
    int nops = 3 + s.pick(13);
    bool local = st.spec.family == F_LOCALP || st.spec.family == F_WAVE;
    int loads_after_refine = 0; bool refined_since_load = false;
    Snap prev = snapshot(ctx, st, "make");
    for (int i = 0; i < nops; i++) {
        bool did = false; int kind = -1; std::string name;
        bool can_classic = local && !st.constructing && st.g.getNumLoaded() > 0 && st.g.getNumNeeded() >= 0 && st.dict_valid;
        if (i > 0 && can_classic && s.chance(2, 5)) {
            ClassicOp co; co.output = s.pick(st.spec.outs + 1) - 1; co.use_scale = s.chance(1, 2); co.vector_overload = s.chance(1, 2); co.tol_sel = s.byte(); if (s.chance(1, 3)) co.limits = decode_limits(s, st.spec.dims);
            classic_refine(ctx, st, co); did = true; kind = OP_REF_SURP; name = "RefSurpClassic";
        } else {
            Op op; if (i == 0) op.kind = OP_LOAD; else op = decode_op(s, st.spec, kinds);
            // metamorphic side: a refinement/update replaces any pending (never loaded) proposal, so its outcome must equal the outcome on the
            // same grid with the pending proposal cancelled first
            bool meta = (op.kind == OP_REF_SURP || op.kind == OP_REF_ANISO || op.kind == OP_UPDATE) && st.g.getNumLoaded() > 0 && st.g.getNumNeeded() > 0;
            GridState twin; if (meta) { twin = st; twin.ctx = nullptr; twin.g.clearRefinement(); }
            did = apply_op(st, op); kind = op.kind; if (did) name = st.trace.back();
            if (did && meta) {
                bool did2 = apply_op(twin, op);
                VF_REQUIRE("C07.refine-ignores-pending", did2 && twin.g.getNumNeeded() == st.g.getNumNeeded() && (st.g.getNumNeeded() == 0 || same_bits(twin.g.getNeededPoints(), st.g.getNeededPoints())),
                           name << " proposed " << st.g.getNumNeeded() << " points on a grid with a pending proposal but " << twin.g.getNumNeeded() << " after cancelling the pending proposal first");
                ctx.count("pending-metamorphic"); ctx.label("meta:pending-refine");
            }
        }
        if (!did) continue;
        Snap cur = snapshot(ctx, st, name.c_str());
        auto unite = [](const CSet &a, const CSet &b) { CSet u = a; u.insert(b.begin(), b.end()); return u; };
        switch (kind) {
        case OP_LOAD:
            VF_REQUIRE("C07.load-set-algebra", cur.loaded == unite(prev.loaded, prev.needed), "after loading the needed values the loaded set (" << cur.loaded.size() << ") is not loaded+needed (" << prev.loaded.size() << "+" << prev.needed.size() << ")");
            VF_REQUIRE("C07.load-set-algebra", cur.needed.empty(), "needed points remain after loadNeededValues: " << cur.needed.size());
            if (refined_since_load && !prev.loaded.empty()) loads_after_refine++; refined_since_load = false; break;
        case OP_RELOAD:
            VF_REQUIRE("C07.reload-keeps-sets", cur.loaded == prev.loaded && cur.needed == prev.needed, "an overwriting reload changed the point sets");
            VF_REQUIRE("C07.reload-keeps-order", same_bits(cur.lp, prev.lp), "an overwriting reload changed the order of the loaded points"); break;
        case OP_MERGE:
            VF_REQUIRE("C07.merge-set-algebra", cur.loaded == unite(prev.loaded, prev.needed) && cur.needed.empty(), "mergeRefinement did not produce the union of loaded and needed points");
            for (double v : cur.vals) VF_REQUIRE("C07.merge-zeroes-values", v == 0.0, "mergeRefinement left a non-zero value " << v); break;
        case OP_CLEAR_REF:
            VF_REQUIRE("C07.clear-only-needed", cur.needed.empty() && same_bits(cur.lp, prev.lp) && same_bits(cur.vals, prev.vals) && same_bits(cur.probe, prev.probe), "clearRefinement changed something other than the needed points"); break;
        case OP_REF_SURP: case OP_REF_ANISO: case OP_UPDATE:
            if (!prev.lp.empty()) {
                VF_REQUIRE("C07.refine-keeps-loaded", same_bits(cur.lp, prev.lp), name << " changed the loaded points");
                VF_REQUIRE("C07.refine-keeps-values", same_bits(cur.vals, prev.vals), name << " changed the loaded values");
                VF_REQUIRE("C07.refine-keeps-surrogate", same_bits(cur.probe, prev.probe), name << " changed the current surrogate");
                refined_since_load = refined_since_load || !cur.needed.empty();
            } break;
        default: break;
        }
        check_association(ctx, st, cur, name.c_str());
        prev = std::move(cur);
    }
    ctx.label(std::string("fam:") + fam_name(st.spec.family));
    if (!st.g.getLevelLimits().empty()) ctx.label("limits");
    for (auto &t : st.trace) { if (t.rfind("RefSurp(", 0) == 0) { size_t p = t.find(','); if (st.spec.family == F_LOCALP || st.spec.family == F_WAVE) ctx.label("strategy:" + t.substr(p + 1, t.find(',', p + 1) - p - 1)); } if (t == "Merge") ctx.label("merge"); }
    ctx.nontrivial = loads_after_refine > 0;
}
VF_REGISTER(C07, check_C07, "grid spec (all families) x stateful sequence of 3-15 load/reload/refine(all strategies, scale corrections, both overloads)/update/merge/clear ops; "
            "non-trivial = the sequence contains a refinement that proposed points after a load AND a later load of those points (values merged positionally into a re-sorted set)");

} // namespace vf
