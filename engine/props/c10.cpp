// C10 - domain transforms act as an exact change of variables.
// Metamorphic pair: A = canonical grid, B = grid of the same specification with a transform, both loaded with the same values (by point
// index). The documented maps, Jacobians and quadrature factors are re-implemented in maps.hpp (long double) from the documentation.
// Classes (balanced by the generator): rules on [-1,1] (Global nested / non-nested / custom, Sequence, Local Polynomial, Wavelet),
// Jacobi-type weights (Chebyshev 1/2, Gegenbauer, Jacobi with alpha, beta), Gauss-Laguerre (shift, rate), Gauss-Hermite (shift, scale),
// Fourier [0,1]; transform modes: linear, conformal (asin truncations 0..6), conformal + linear (the last two on [-1,1] families only).
// Oracles (linear): points_B == map(points_A) (needed, loaded, getPoints); evaluate_B(x) == evaluate_A(map^-1(x)) at interior points, nodes and
// boundaries; differentiate_B(x) == differentiate_A(t) dt/dx; getHierarchicalSupport scales by the Jacobian; quadrature weights, integrate()
// and integrateHierarchicalFunctions() scale by the documented factor; getDomainInside() accepts grid points / interior points and rejects
// points beyond the bounds by a margin (Hermite accepts everything, Laguerre rejects x < a only).
// Oracles (conformal): points_C == linear(g(points_A)) with g the truncated, normalised arcsin series; evaluate_C(points_C[i]) == evaluate_A(points_A[i])
// (== v_i for interpolatory rules); evaluate_C(x) == evaluate_A(g^-1(x)) with a bisection inverse; weights_C == weights_A * prod g'(t_ij) (* linear factor).
#include "history.hpp"
#include "refmodel/maps.hpp"

namespace vf {
namespace {
using LD = long double;
const double EPS = 2.220446049250313e-16;

// sum_i |iw_i||v_ik| floored by max|v_k|, and sum_i |dw_ij||v_ik|, on the canonical grid at canonical t
void scales_A(const TasmanianSparseGrid &A, const std::vector<double> &t, std::vector<double> &S, std::vector<double> &D) {
    int d = A.getNumDimensions(), outs = A.getNumOutputs(), n = A.getNumLoaded();
    std::vector<double> iw, dw = A.getDifferentiationWeights(t); A.getInterpolationWeights(t, iw); const double *v = A.getLoadedValues();
    S.assign((size_t)outs, 0.0); D.assign((size_t)outs * (size_t)d, 0.0); std::vector<double> vmax((size_t)outs, 0.0);
    for (int i = 0; i < n; i++) for (int k = 0; k < outs; k++) { double av = std::fabs(v[(size_t)i * (size_t)outs + (size_t)k]); S[(size_t)k] += std::fabs(iw[(size_t)i]) * av; vmax[(size_t)k] = std::max(vmax[(size_t)k], av);
        for (int j = 0; j < d; j++) D[(size_t)k * (size_t)d + (size_t)j] += std::fabs(dw[(size_t)i * (size_t)d + (size_t)j]) * av; }
    for (int k = 0; k < outs; k++) S[(size_t)k] = std::max(S[(size_t)k], vmax[(size_t)k]);
}
std::string pt(const double *x, int d) { return "(" + joind(std::vector<double>(x, x + d)) + ")"; }
} // namespace

void check_C10(Src &s, Ctx &ctx) {
    auto mix = [&](int k) { return (int)((s.byte() * 37u) % (unsigned)k); };   // balanced choice from a byte (rapidcheck favours small bytes); exhausted input -> 0
    // ---- class, family, mode
    enum { CL_11 = 0, CL_JACOBI, CL_LAGUERRE, CL_HERMITE, CL_FOURIER };
    static const int cls_of[16] = {CL_11, CL_JACOBI, CL_LAGUERRE, CL_HERMITE, CL_FOURIER, CL_11, CL_LAGUERRE, CL_JACOBI, CL_HERMITE, CL_11, CL_FOURIER, CL_11, CL_LAGUERRE, CL_HERMITE, CL_FOURIER, CL_11};
    const int cls = cls_of[mix(16)];
    static const int fam11[8] = {F_GLOBAL, F_LOCALP, F_WAVE, F_SEQ, F_LOCALP, F_SEQ, F_WAVE, F_LOCALP};
    const int fsel = mix(8), msel = mix(3), rsel = mix(16), osel = mix(14);
    SpecOpts so; so.max_dims = 3; so.min_outs = 1; so.max_outs = 2; so.transforms = false; so.conformal = false; so.unbounded = false; so.cap = cfg().tier ? 300 : 200;
    so.fam_mask = 1u << (cls == CL_11 ? fam11[fsel] : (cls == CL_FOURIER ? F_FOURIER : F_GLOBAL));
    so.min_depth = mix(8) == 7 ? 0 : 1;
    GridSpec sp = decode_spec(s, so);
    if (cls == CL_JACOBI) { static const TypeOneDRule r[8] = {rule_gaussjacobi, rule_gausschebyshev1, rule_gausschebyshev2, rule_gaussgegenbauer, rule_gaussjacobiodd, rule_gausschebyshev1odd, rule_gausschebyshev2odd, rule_gaussgegenbauerodd};
        sp.rule = r[rsel % 8]; sp.custom = false; sp.alpha = rule_uses_alpha(sp.rule) ? ALPHAS[(size_t)mix((int)ALPHAS.size())] : 0.0; sp.beta = rule_uses_beta(sp.rule) ? ALPHAS[(size_t)mix((int)ALPHAS.size())] : 0.0; }
    if (cls == CL_LAGUERRE) { sp.rule = (rsel % 2) ? rule_gausslaguerreodd : rule_gausslaguerre; sp.custom = false; sp.alpha = ALPHAS[(size_t)mix((int)ALPHAS.size())]; sp.beta = 0; }
    if (cls == CL_HERMITE) { sp.rule = (rsel % 2) ? rule_gausshermiteodd : rule_gausshermite; sp.custom = false; sp.alpha = ALPHAS[(size_t)mix((int)ALPHAS.size())]; sp.beta = 0; }
    if (sp.family == F_LOCALP) { static const int orders[7] = {1, 2, 3, 0, -1, 4, 5}; sp.order = orders[osel % 7]; }
    if (sp.family == F_WAVE) sp.order = (osel % 2) ? 3 : 1;
    ValueModel vm; vm.decode(s);
    const maps::Dom dom = maps::dom_of(sp);
    const bool canon11 = dom == maps::D11;
    const int mode = canon11 ? msel : 0;   // 0 linear, 1 conformal, 2 conformal + linear
    const bool linear = mode != 1, conformal = mode != 0;
    const bool unb = dom == maps::DLAGUERRE || dom == maps::DHERMITE;

    TasmanianSparseGrid A; make_grid(A, sp, so.cap);   // (spec carries no transform: A is canonical); depth written back
    const int d = sp.dims, outs = sp.outs, n = A.getNumPoints();
    // ---- the transform
    std::vector<double> ta, tb; std::vector<int> trunc; bool generated_ab = false, canonical_ab = false, a_ge_b = false;
    if (linear) for (int j = 0; j < d; j++) {
        double a, b;
        if (mix(3) == 0) { generated_ab = true; double u = (double)s.u16() / 65535.0, w = (double)s.u16() / 65535.0;
            if (unb) { a = -3.0 + 6.0 * u; b = 0.1 + 3.9 * w; } else { a = -4.0 + 8.0 * u; b = a + 0.01 + 5.0 * w; } }
        else if (unb) { static const std::vector<std::pair<double, double>> more = {{2, 1}, {0.5, 0.5}, {3, 0.25}, {-2, 4}}; int k = mix((int)(UNBOUNDED_AB.size() + more.size()));
            auto ab = k < (int)UNBOUNDED_AB.size() ? UNBOUNDED_AB[(size_t)k] : more[(size_t)k - UNBOUNDED_AB.size()]; a = ab.first; b = ab.second; }   // shift a, rate b > 0 (a >= b is legal)
        else { auto ab = BOUNDED_AB[(size_t)mix((int)BOUNDED_AB.size())]; a = ab.first; b = ab.second; }
        ta.push_back(a); tb.push_back(b);
        if ((dom == maps::D11 && a == -1 && b == 1) || (dom == maps::DFOURIER && a == 0 && b == 1) || (dom == maps::DLAGUERRE && a == 0 && b == 1) || (dom == maps::DHERMITE && a == 0 && b == 1)) canonical_ab = true;
        if (unb && a >= b) a_ge_b = true;
    }
    if (conformal) for (int j = 0; j < d; j++) trunc.push_back(mix(7));
    GridSpec spB = sp; spB.ta = ta; spB.tb = tb; spB.conformal = trunc;
    ctx.log("A: " + sp.text()); ctx.log("B: " + spB.text()); ctx.log(vm.text());
    std::vector<maps::Asin> G; for (int j = 0; j < d; j++) G.emplace_back(conformal ? trunc[(size_t)j] : 0);
    // canonical t -> transformed x of B (harness maps): conformal first, then linear (documented order: the conformal map acts on the canonical domain)
    auto fwd = [&](int j, LD t) { LD u = conformal ? G[(size_t)j].g(t) : t; return linear ? maps::fwd(dom, ta[(size_t)j], tb[(size_t)j], u) : u; };
    auto inv = [&](int j, LD x) { LD u = linear ? maps::inv(dom, ta[(size_t)j], tb[(size_t)j], x) : x; return conformal ? G[(size_t)j].ginv(u) : u; };
    std::vector<LD> dxdt((size_t)d, 1.0L), qf((size_t)d, 1.0L); LD QF = 1.0L;
    if (linear) for (int j = 0; j < d; j++) { dxdt[(size_t)j] = maps::dxdt(dom, ta[(size_t)j], tb[(size_t)j]); qf[(size_t)j] = maps::quad_factor(sp, ta[(size_t)j], tb[(size_t)j]); QF *= qf[(size_t)j]; }
    std::vector<double> pscale((size_t)d, 1.0); if (linear) for (int j = 0; j < d; j++) pscale[(size_t)j] = std::fabs(ta[(size_t)j]) + std::fabs(tb[(size_t)j]) + (unb ? 1.0 : 0.0);

    TasmanianSparseGrid B; make_raw(B, sp, sp.depth, outs);
    if (conformal && mix(2)) { if (linear) B.setDomainTransform(ta, tb); B.setConformalTransformASIN(trunc); }   // either order of the two calls
    else { if (conformal) B.setConformalTransformASIN(trunc); if (linear) B.setDomainTransform(ta, tb); }
    VF_REQUIRE("C10.points", B.getNumPoints() == n && B.getNumNeeded() == A.getNumNeeded(), "the transformed grid has " << B.getNumPoints() << " points, the canonical grid " << n);

    // ---- (1) points
    std::vector<double> PA = A.getPoints();
    auto check_points = [&](const std::vector<double> &pa, const std::vector<double> &pb, const char *which) {
        VF_REQUIRE("C10.points", pa.size() == pb.size(), which << " has " << pb.size() << " numbers on the transformed grid and " << pa.size() << " on the canonical grid");
        for (size_t i = 0; i < pa.size(); i++) { int j = (int)(i % (size_t)d); double ex = (double)fwd(j, pa[i]);
            close_booked(ctx, "C10.points", pb[i], ex, std::max(pscale[(size_t)j], std::fabs(ex)), 1e-12, [&]() { std::ostringstream o; o << which << " point #" << i / (size_t)d << " direction " << j << " canonical " << decd(pa[i]); return o.str(); }); }
        ctx.count("point-coordinates", (long)pa.size()); };
    check_points(A.getNeededPoints(), B.getNeededPoints(), "getNeededPoints");
    check_points(PA, B.getPoints(), "getPoints (before loading)");
    { std::vector<double> raw((size_t)n * (size_t)d, 1e10); B.getPoints(raw.data()); check_points(PA, raw, "getPoints(raw array)"); }

    // ---- same values by point index
    std::vector<double> vals((size_t)n * (size_t)outs);
    for (int i = 0; i < n; i++) for (int k = 0; k < outs; k++) vals[(size_t)i * (size_t)outs + (size_t)k] = vm(&PA[(size_t)i * (size_t)d], d, k, 0);
    A.loadNeededValues(vals); B.loadNeededValues(vals);
    std::vector<double> PB = B.getLoadedPoints();
    check_points(A.getLoadedPoints(), PB, "getLoadedPoints");
    check_points(PA, B.getPoints(), "getPoints (after loading)");

    // ---- canonical box / resolution (as in C05)
    const bool local = sp.family == F_LOCALP || sp.family == F_WAVE, pwc = sp.family == F_LOCALP && sp.order == 0, wavelet = sp.family == F_WAVE;
    std::vector<double> lo((size_t)d), hi((size_t)d), q((size_t)d, 0.0), gap((size_t)d);
    for (int j = 0; j < d; j++) { double mx = 0; std::vector<double> c; for (int i = 0; i < n; i++) { c.push_back(PA[(size_t)i * (size_t)d + (size_t)j]); mx = std::max(mx, std::fabs(c.back())); }
        std::sort(c.begin(), c.end()); c.erase(std::unique(c.begin(), c.end()), c.end());
        switch (dom) { case maps::DFOURIER: lo[(size_t)j] = 0; hi[(size_t)j] = 1; break; case maps::DLAGUERRE: lo[(size_t)j] = 0; hi[(size_t)j] = std::max(1.0, mx); break;
            case maps::DHERMITE: lo[(size_t)j] = -std::max(1.0, mx); hi[(size_t)j] = std::max(1.0, mx); break; default: lo[(size_t)j] = -1; hi[(size_t)j] = 1; }
        double g = hi[(size_t)j] - lo[(size_t)j]; for (size_t i = 0; i + 1 < c.size(); i++) g = std::min(g, c[i + 1] - c[i]); gap[(size_t)j] = g; }
    std::vector<double> suppA = A.getHierarchicalSupport();
    if (local) for (int j = 0; j < d; j++) {
        if (pwc) { double m = 2.0; for (int i = 0; i < n; i++) m = std::min(m, suppA[(size_t)i * (size_t)d + (size_t)j]); q[(size_t)j] = m; }
        else { int M = 0; for (int i = 0; i < n; i++) M = std::max(M, h1d::dyadic_m(PA[(size_t)i * (size_t)d + (size_t)j])); q[(size_t)j] = std::ldexp(1.0, -(M + 1)); if (wavelet && sp.order == 3) q[(size_t)j] = std::ldexp(1.0, -std::max(9, M + 4)); } }
    auto generic_t = [&]() { std::vector<double> t((size_t)d);
        for (int j = 0; j < d; j++) { double L = hi[(size_t)j] - lo[(size_t)j];
            if (local) { static const double fr[] = {0.41, 0.3, 0.7, 0.15, 0.85, 0.59}; long cells = std::lround(2.0 / q[(size_t)j]); long k = (long)(s.u16() % (unsigned long)cells); t[(size_t)j] = -1.0 + ((double)k + fr[s.pick(6)]) * q[(size_t)j]; }
            else { double u = ((double)s.u16() + 0.5) / 65536.0; t[(size_t)j] = lo[(size_t)j] + L * (0.01 + 0.98 * u); } }
        return t; };
    auto to_x = [&](const std::vector<double> &t) { std::vector<double> x((size_t)d); for (int j = 0; j < d; j++) x[(size_t)j] = (double)fwd(j, t[(size_t)j]); return x; };

    const double tau_eval = wavelet ? 1e-8 : 1e-10;
    // |t(library) - t(harness)|: rounding of the affine inverse, the conformal inverse is a Newton iteration stopped at a residual of 1e-12 (g' >= 2/pi), budget 1e-9
    std::vector<double> dt((size_t)d);
    for (int j = 0; j < d; j++) { double tmax = std::max(std::fabs(lo[(size_t)j]), std::fabs(hi[(size_t)j])), lin = 0;
        if (linear) { double xmax = std::max(std::fabs((double)maps::fwd(dom, ta[(size_t)j], tb[(size_t)j], lo[(size_t)j])), std::fabs((double)maps::fwd(dom, ta[(size_t)j], tb[(size_t)j], hi[(size_t)j]))) + pscale[(size_t)j]; lin = 256 * EPS * xmax / std::fabs((double)dxdt[(size_t)j]); }
        dt[(size_t)j] = lin + (conformal ? 1e-9 : 0.0) + 16 * EPS * tmax; }
    auto compare_eval = [&](const std::vector<double> &x, const std::vector<double> &t, const char *oracle, const char *what) {
        std::vector<double> yA, yB, S, D; A.evaluate(t, yA); B.evaluate(x, yB); scales_A(A, t, S, D);
        for (int k = 0; k < outs; k++) { double sc = S[(size_t)k]; for (int j = 0; j < d; j++) sc += D[(size_t)k * (size_t)d + (size_t)j] * dt[(size_t)j] / tau_eval;
            close_booked(ctx, oracle, yB[(size_t)k], yA[(size_t)k], sc, tau_eval, [&]() { std::ostringstream o; o << "evaluate on the transformed grid at " << what << " x=" << pt(x.data(), d) << " output " << k << " vs canonical grid at t=" << pt(t.data(), d); return o.str(); }); }
    };
    // boundary class excluded by construction - known finding *-wavelet-transformed-boundary: with a linear transform the library's inverse image
    // x*rate-shift of a point on the boundary can round outside [-1,1], where the wavelet basis is cut to zero (helper lib_canonical_outside)
    auto known_boundary = [&](const std::vector<double> &x) { return wavelet && linear && lib_canonical_outside(B, x.data()); };
    // finding C10-pwc-boundary: piece-wise constant local polynomials (order 0) decide "x in the cell" by |x - node| <= support in floating point; for the
    // outermost cells this fails at (and one ulp inside) the boundary of the canonical domain, so evaluate() at x = a or b returns the surrogate of a coarser
    // level, on the canonical and on the transformed grid in different ways. Excluded class: order 0 x a coordinate exactly on the boundary.
    auto pwc_boundary = [&](const std::vector<double> &) { return pwc && ctx.excl("C10-pwc-boundary"); };

    // ---- (2) evaluate: nodes, interior, boundary
    { const double *vB = B.getLoadedValues(); bool interpolatory = sp.nested();
      int stride = n <= 40 ? 1 : n / 30; long nn = 0;
      for (int i = 0; i < n; i += stride) { std::vector<double> x(PB.begin() + (long)i * d, PB.begin() + (long)(i + 1) * d), t(PA.begin() + (long)i * d, PA.begin() + (long)(i + 1) * d);
          if (known_boundary(x)) { ctx.count("excluded-boundary-points"); continue; }
          compare_eval(x, t, "C10.evaluate-at-nodes", "node");
          if (interpolatory) { std::vector<double> yB, S, D; B.evaluate(x, yB); scales_A(A, t, S, D);
              for (int k = 0; k < outs; k++) { double sc = S[(size_t)k]; for (int j = 0; j < d; j++) sc += D[(size_t)k * (size_t)d + (size_t)j] * dt[(size_t)j] / tau_eval;
                  close_booked(ctx, "C10.nodal-under-transform", yB[(size_t)k], vB[(size_t)i * (size_t)outs + (size_t)k], sc, tau_eval, [&]() { std::ostringstream o; o << "evaluate at the transformed node #" << i << " " << pt(x.data(), d) << " output " << k << " vs the loaded value"; return o.str(); }); } }
          nn++; }
      ctx.count("eval-nodes", nn); }
    const int nx = 3 + mix(4);
    std::vector<std::vector<double>> TX;
    for (int r = 0; r < nx; r++) { std::vector<double> t = generic_t(), x = to_x(t); TX.push_back(t);
        if (conformal) { std::vector<double> t2((size_t)d); for (int j = 0; j < d; j++) t2[(size_t)j] = (double)inv(j, x[(size_t)j]);   // bisection inverse of the rounded x
            for (int j = 0; j < d; j++) VF_REQUIRE("C10.harness-maps", std::fabs(t2[(size_t)j] - t[(size_t)j]) <= 1e-9, "harness forward/bisection maps disagree: " << t[(size_t)j] << " vs " << t2[(size_t)j]);
            compare_eval(x, t2, "C10.evaluate", "interior"); }
        else compare_eval(x, t, "C10.evaluate", "interior");
        ctx.count("eval-interior"); }
    long n_boundary = 0;
    if (dom == maps::D11 || dom == maps::DFOURIER) for (int r = 0; r < 2; r++) {   // a point with one or more coordinates exactly on the boundary of the domain
        std::vector<double> t = generic_t(), x = to_x(t); int mask = 1 + mix((1 << d) - 1), side = mix(1 << d);
        for (int j = 0; j < d; j++) if (mask >> j & 1) { bool up = side >> j & 1; t[(size_t)j] = up ? hi[(size_t)j] : lo[(size_t)j]; x[(size_t)j] = linear ? (up ? tb[(size_t)j] : ta[(size_t)j]) : t[(size_t)j]; }
        if (known_boundary(x) || pwc_boundary(x)) { ctx.count("excluded-boundary-points"); continue; }
        compare_eval(x, t, "C10.evaluate-at-boundary", "boundary"); n_boundary++; ctx.count("eval-boundary"); }

    // ---- (3) derivatives scale by the Jacobian (no conformal map: the API documents no derivative there)
    if (!conformal) for (int r = 0; r < nx; r++) {
        const std::vector<double> &t = TX[(size_t)r]; std::vector<double> x = to_x(t), JA, JB, S, D; A.differentiate(t, JA); B.differentiate(x, JB); scales_A(A, t, S, D);
        VF_REQUIRE("C10.differentiate", JB.size() == (size_t)outs * (size_t)d, "differentiate returned " << JB.size() << " entries");
        for (int k = 0; k < outs; k++) for (int j = 0; j < d; j++) { size_t e = (size_t)k * (size_t)d + (size_t)j; double gp = (double)(1.0L / dxdt[(size_t)j]);
            close_booked(ctx, "C10.differentiate", JB[e], (double)((LD)JA[e] / dxdt[(size_t)j]), (D[e] + S[(size_t)k] / (hi[(size_t)j] - lo[(size_t)j])) * std::fabs(gp), 1e-8, [&]() { std::ostringstream o; o << "differentiate on the transformed grid at x=" << pt(x.data(), d) << " output " << k << " direction " << j << " vs canonical derivative " << decd(JA[e]) << " times dt/dx=" << decd(gp); return o.str(); }); }
        ctx.count("diff-points"); }

    // ---- (4) supports
    if (linear) { std::vector<double> suppB = B.getHierarchicalSupport();
        VF_REQUIRE("C10.support", suppB.size() == suppA.size() && suppA.size() == (size_t)n * (size_t)d, "getHierarchicalSupport returned " << suppB.size() << " numbers for " << n << " points");
        if (conformal) { /* the documented correction is for the linear map only; nothing stated for conformal maps */ }
        else if (local || (dom == maps::D11)) {   // supports are lengths in the domain: scale by dx/dt = (b-a)/2
            for (size_t i = 0; i < suppA.size(); i++) { int j = (int)(i % (size_t)d); double ex = (double)((LD)suppA[i] * dxdt[(size_t)j]);
                close_booked(ctx, "C10.support", suppB[i], ex, std::fabs(ex), 1e-12, [&]() { std::ostringstream o; o << "support of basis " << i / (size_t)d << " direction " << j << " (canonical " << suppA[i] << ")"; return o.str(); }); }
            ctx.count("support-entries", (long)suppA.size()); }
        else if (dom == maps::DFOURIER) {   // documented: support over the entire domain
            for (size_t i = 0; i < suppA.size(); i++) { int j = (int)(i % (size_t)d);
                VF_REQUIRE("C10.support", suppA[i] >= 1.0 && suppB[i] >= (tb[(size_t)j] - ta[(size_t)j]) * (1 - 1e-13), "Fourier basis " << i / (size_t)d << " reports support " << suppB[i] << " on a domain of length " << tb[(size_t)j] - ta[(size_t)j]); }
            ctx.count("support-entries", (long)suppA.size()); }
        else if (!ctx.excl("C10-unbounded-support")) {   // Gauss-Laguerre / Gauss-Hermite: dx/dt = 1/b, 1/sqrt(b)
            for (size_t i = 0; i < suppA.size(); i++) { int j = (int)(i % (size_t)d); double ex = (double)((LD)suppA[i] * dxdt[(size_t)j]);
                close_booked(ctx, "C10.support-unbounded", suppB[i], ex, std::fabs(ex), 1e-13, [&]() { std::ostringstream o; o << "support of basis " << i / (size_t)d << " direction " << j << " (canonical " << suppA[i] << ", shift " << ta[(size_t)j] << ", rate " << tb[(size_t)j] << ")"; return o.str(); }); }
            ctx.count("support-entries", (long)suppA.size()); }
    }

    // ---- (5) quadrature weights, integrals
    { std::vector<double> wA = A.getQuadratureWeights(), wB = B.getQuadratureWeights();
      VF_REQUIRE("C10.quadrature", wA.size() == (size_t)n && wB.size() == (size_t)n, "getQuadratureWeights returned " << wB.size() << " weights for " << n << " points");
      double wmax = 0; std::vector<double> ex((size_t)n);
      for (int i = 0; i < n; i++) { LD f = QF; if (conformal) for (int j = 0; j < d; j++) f *= G[(size_t)j].dg(PA[(size_t)i * (size_t)d + (size_t)j]); ex[(size_t)i] = (double)((LD)wA[(size_t)i] * f); wmax = std::max(wmax, std::fabs(ex[(size_t)i])); }
      for (int i = 0; i < n; i++) close_booked(ctx, conformal ? "C10.conformal-weights" : "C10.quadrature", wB[(size_t)i], ex[(size_t)i], std::max(std::fabs(ex[(size_t)i]), 1e-3 * wmax), 1e-11, [&]() { std::ostringstream o; o << "quadrature weight #" << i << " (canonical " << decd(wA[(size_t)i]) << ", factor " << decd((double)QF) << ")"; return o.str(); });
      ctx.count("weights", n);
      std::vector<double> qA, qB; A.integrate(qA); B.integrate(qB); const double *v = A.getLoadedValues();
      for (int k = 0; k < outs; k++) { double sc = 0, exq = 0; for (int i = 0; i < n; i++) { sc += std::fabs(ex[(size_t)i] * v[(size_t)i * (size_t)outs + (size_t)k]); exq += ex[(size_t)i] * v[(size_t)i * (size_t)outs + (size_t)k]; }
          if (!conformal) close_booked(ctx, "C10.integrate", qB[(size_t)k], (double)((LD)qA[(size_t)k] * QF), sc, 1e-11, [&]() { return "integrate() output " + std::to_string(k) + " vs canonical integral x factor"; });
          else close_booked(ctx, "C10.integrate", qB[(size_t)k], exq, sc, wavelet ? 1e-8 : 1e-10, [&]() { return "integrate() output " + std::to_string(k) + " vs sum of expected weights x values"; }); }
      if (!conformal) { std::vector<double> IA = A.integrateHierarchicalFunctions(), IB = B.integrateHierarchicalFunctions(); double imax = 0; for (double v2 : IA) imax = std::max(imax, std::fabs(v2 * (double)QF));
          VF_REQUIRE("C10.basis-integrals", IA.size() == IB.size(), "integrateHierarchicalFunctions sizes differ");
          for (size_t i = 0; i < IA.size(); i++) { double e2 = (double)((LD)IA[i] * QF); close_booked(ctx, "C10.basis-integrals", IB[i], e2, std::max(std::fabs(e2), 1e-3 * imax), 1e-11, [&]() { return "integral of hierarchical function #" + std::to_string(i); }); }
          ctx.count("basis-integrals", (long)IA.size()); } }

    // ---- (6) domain predicate
    { auto inA = A.getDomainInside(), inB = B.getDomainInside(); long rounded = 0;
      auto within = [&](const std::vector<double> &x) { if (!linear) { for (double c : x) if (!(c >= -1 && c <= 1)) return false; return true; }
          for (int j = 0; j < d; j++) { if (dom == maps::DHERMITE) continue; if (x[(size_t)j] < ta[(size_t)j]) return false; if (dom != maps::DLAGUERRE && x[(size_t)j] > tb[(size_t)j]) return false; } return true; };
      for (int i = 0; i < n; i++) { std::vector<double> x(PB.begin() + (long)i * d, PB.begin() + (long)(i + 1) * d), t(PA.begin() + (long)i * d, PA.begin() + (long)(i + 1) * d);
          VF_REQUIRE("C10.inside-accepts-canonical-point", inA(t), "getDomainInside() of the canonical grid rejects its own point " << pt(t.data(), d));
          if (!within(x)) { rounded++; continue; }   // a boundary node mapped one ulp beyond the bound: "up to rounding at the boundary itself"
          VF_REQUIRE("C10.inside-accepts-grid-point", inB(x), "getDomainInside() rejects the grid point " << pt(x.data(), d)); }
      if (rounded) { ctx.count("grid-points-rounded-beyond-bound", rounded); ctx.label("inside:boundary-rounding"); }
      for (auto &t : TX) { std::vector<double> x = to_x(t); VF_REQUIRE("C10.inside-accepts-interior", inB(x), "getDomainInside() rejects the interior point " << pt(x.data(), d)); }
      static const double margins[] = {1e-9, 1e-6, 1e-3, 0.5, 10.0};
      for (int r = 0; r < 4; r++) { std::vector<double> x = to_x(TX[(size_t)(r % nx)]); int j = mix(d); double m = margins[mix(5)]; bool up = mix(2);
          double a = linear ? ta[(size_t)j] : -1.0, b = linear ? tb[(size_t)j] : 1.0;
          if (dom == maps::DHERMITE) { x[(size_t)j] = (up ? 1.0 : -1.0) * 1e6 * m; VF_REQUIRE("C10.inside-unbounded", inB(x), "Gauss-Hermite domain predicate rejects " << pt(x.data(), d)); }
          else if (dom == maps::DLAGUERRE) { if (up) { x[(size_t)j] = a + 1e6 * m; VF_REQUIRE("C10.inside-unbounded", inB(x), "Gauss-Laguerre domain predicate rejects " << pt(x.data(), d) << " above the shift " << a); }
              else { x[(size_t)j] = a - m * std::max(1.0, std::fabs(a)); VF_REQUIRE("C10.inside-rejects-outside", !inB(x), "Gauss-Laguerre domain predicate accepts " << pt(x.data(), d) << " below the shift " << a); } }
          else { x[(size_t)j] = up ? b + m * (b - a) : a - m * (b - a); VF_REQUIRE("C10.inside-rejects-outside", !inB(x), "getDomainInside() accepts " << pt(x.data(), d) << " although coordinate " << j << " is beyond [" << a << "," << b << "] by " << m << " x length"); }
          ctx.count("inside-probes"); }
    }

    // ---- classes
    ctx.label(std::string("dom:") + maps::dom_name(dom)); ctx.label(std::string("fam:") + fam_name(sp.family));
    ctx.label(mode == 0 ? "mode:linear" : mode == 1 ? "mode:conformal" : "mode:conformal+linear");
    { long double al, be; maps::jacobi_exponents(sp, al, be); if (al != 0 || be != 0) ctx.label("weight:jacobi-type"); }
    if (sp.family == F_GLOBAL) ctx.label(sp.custom ? "global:custom" : sp.nested() ? "global:nested" : "global:non-nested");
    if (sp.family == F_LOCALP) ctx.label("lp:o" + std::to_string(sp.order)); if (wavelet) ctx.label("wave:o" + std::to_string(sp.order));
    if (linear) ctx.label(generated_ab ? "ab:generated" : "ab:palette"); if (a_ge_b) ctx.label("ab:shift>=rate"); if (canonical_ab) ctx.label("ab:canonical-in-some-direction");
    if (n_boundary) ctx.label("x:boundary"); ctx.label("d:" + std::to_string(d));
    bool ident_conf = conformal; if (conformal) for (int tr : trunc) if (tr > 0) ident_conf = false;
    if (ident_conf) ctx.label("conformal:identity");
    ctx.nontrivial = linear ? !canonical_ab : !ident_conf;
}
VF_REGISTER(C10, check_C10, "class ([-1,1] rules of all families, Jacobi-type weights, Gauss-Laguerre, Gauss-Hermite, Fourier) x grid spec x transform mode (linear; conformal asin 0..6; conformal + linear) "
            "x (a,b) per direction from a palette or generated (unbounded rules: shift and positive rate, also shift >= rate) x value model x 3-6 interior points, nodes, boundary points, probes beyond the bounds; "
            "pair A canonical / B transformed with the same values; non-trivial = (a,b) differs from the canonical interval in every direction (conformal only: some truncation > 0)");

} // namespace vf
