// C12 - const operations on one grid are safe to call concurrently (default acceleration mode).
// Generator: grid state (fresh / loaded / pending refinement / zero outputs / restored from a file) x 2-8 threads x per-thread list of
// const calls with generated arguments x start jitter; all threads are released together.
// Oracle: ThreadSanitizer build (any data race report stops the process: happens-before analysis, independent of the actual timing);
// every call returns bitwise the result of the same call in a sequential pre-pass.
#include "history.hpp"
#include "observe.hpp"
#include <thread>
#include <atomic>

namespace vf {
namespace {
enum CallKind { CK_EVAL, CK_BATCH, CK_FAST, CK_IWEIGHTS, CK_QWEIGHTS, CK_DWEIGHTS, CK_INTEGRATE, CK_DIFF, CK_HDENSE, CK_HSPARSE, CK_SUPPORT, CK_HINTEG, CK_GETTERS, CK_POLYSPACE, CK_ANISO, CK_WRITE, CK_COPY, CK_NUM };
const char *ck_name(int k) { static const char *n[] = {"evaluate", "evaluateBatch", "evaluateFast", "interpolationWeights", "quadratureWeights", "differentiationWeights", "integrate", "differentiate", "hierarchicalDense", "hierarchicalSparse",
    "support", "basisIntegrals", "getters", "polynomialSpace", "estimateAnisotropic", "write", "copy"}; return n[k]; }
struct Call { int kind; std::vector<double> x; int nx = 1; bool binary = false; };

bool applicable(const TasmanianSparseGrid &g, int kind, bool conformal) {
    bool loaded = g.getNumLoaded() > 0 && g.getNumOutputs() > 0; bool local = g.isLocalPolynomial() || g.isWavelet();
    switch (kind) {
    case CK_EVAL: case CK_BATCH: case CK_FAST: case CK_INTEGRATE: return loaded;
    case CK_DIFF: return loaded && !conformal;
    case CK_DWEIGHTS: return !conformal && g.getNumPoints() > 0;
    case CK_HSPARSE: return local && g.getNumPoints() > 0;
    case CK_POLYSPACE: return g.isGlobal() || g.isSequence();
    case CK_ANISO: return loaded && (g.isSequence() || g.isFourier() || (g.isGlobal() && !OneDimensionalMeta::isNonNested(g.getRule())));
    case CK_HINTEG: return !conformal && g.getNumPoints() > 0;
    default: return g.getNumPoints() > 0;
    }
}
// executes a const call, returns its result as a vector of doubles (bit patterns compared)
std::vector<double> run_call(const TasmanianSparseGrid &g, const Call &c) {
    std::vector<double> r; int d = g.getNumDimensions(), outs = g.getNumOutputs(), np = g.getNumPoints();
    switch (c.kind) {
    case CK_EVAL: r.resize((size_t)outs); g.evaluate(c.x.data(), r.data()); break;
    case CK_BATCH: r.resize((size_t)outs * (size_t)c.nx); g.evaluateBatch(c.x.data(), c.nx, r.data()); break;
    case CK_FAST: r.resize((size_t)outs); g.evaluateFast(c.x.data(), r.data()); break;
    case CK_IWEIGHTS: r.resize((size_t)np); g.getInterpolationWeights(c.x.data(), r.data()); break;
    case CK_QWEIGHTS: r = g.getQuadratureWeights(); break;
    case CK_DWEIGHTS: r.resize((size_t)np * (size_t)d); g.getDifferentiationWeights(c.x.data(), r.data()); break;
    case CK_INTEGRATE: g.integrate(r); break;
    case CK_DIFF: r.resize((size_t)outs * (size_t)d); g.differentiate(c.x.data(), r.data()); break;
    case CK_HDENSE: r.resize((size_t)np * (size_t)c.nx * (g.isFourier() ? 2u : 1u)); g.evaluateHierarchicalFunctions(c.x.data(), c.nx, r.data()); break;
    case CK_HSPARSE: { std::vector<int> p, i; std::vector<double> v; g.evaluateSparseHierarchicalFunctions(c.x, p, i, v); r = v; for (int q : p) r.push_back(q); for (int q : i) r.push_back(q); break; }
    case CK_SUPPORT: r = g.getHierarchicalSupport(); break;
    case CK_HINTEG: r = g.integrateHierarchicalFunctions(); break;
    case CK_GETTERS: { r = g.getPoints(); if (g.getNumNeeded()) { auto n = g.getNeededPoints(); r.insert(r.end(), n.begin(), n.end()); }
        if (g.getNumLoaded() && outs) { const double *v = g.getLoadedValues(); r.insert(r.end(), v, v + (size_t)g.getNumLoaded() * (size_t)outs); const double *cf = g.getHierarchicalCoefficients(); r.insert(r.end(), cf, cf + (size_t)g.getNumLoaded() * (size_t)outs); }
        r.push_back(g.getNumLoaded()); r.push_back(g.getNumNeeded()); for (int l : g.getLevelLimits()) r.push_back(l); break; }
    case CK_POLYSPACE: for (int q : g.getGlobalPolynomialSpace(c.binary)) r.push_back(q); break;
    case CK_ANISO: for (int q : g.estimateAnisotropicCoefficients(c.binary ? type_iptotal : type_ipcurved, g.isGlobal() ? 0 : -1)) r.push_back(q); break;
    case CK_WRITE: { std::ostringstream o; g.write(o, c.binary); std::string s = o.str(); r.assign(s.begin(), s.end()); break; }
    case CK_COPY: { TasmanianSparseGrid h(g); r = h.getPoints(); r.push_back(h.getNumLoaded()); if (h.getNumLoaded() && outs) { std::vector<double> y((size_t)outs); h.evaluate(c.x.data(), y.data()); r.insert(r.end(), y.begin(), y.end()); } break; }
    }
    return r;
}
bool same_bits(const std::vector<double> &a, const std::vector<double> &b) { return a.size() == b.size() && (a.empty() || std::memcmp(a.data(), b.data(), a.size() * sizeof(double)) == 0); }
} // namespace

void check_C12(Src &s, Ctx &ctx) {
    SpecOpts so; so.min_outs = 0; so.max_outs = 2; so.cap = cfg().tier ? 150 : 100;
    GridState st; st.cap = so.cap; st.ctx = &ctx;
    st.spec = decode_spec(s, so); st.vm.decode(s);
    make_grid(st.g, st.spec, so.cap); ctx.log(st.spec.text());
    static const std::vector<int> kinds = {OP_LOAD, OP_LOAD, OP_REF_SURP, OP_REF_ANISO, OP_UPDATE, OP_RELOAD, OP_MERGE, OP_SET_COEFF, OP_ROUNDTRIP, OP_COPY, OP_BEGIN_CONSTR, OP_CANDIDATES, OP_LOAD_CONSTR, OP_FINISH_CONSTR};
    run_history(s, st, kinds, s.pick(6), !s.chance(1, 5), [&](const Op &) {});
    // known finding C12-conformal-lgamma-signgam: states with a conformal map are excluded by construction (the map is removed before the concurrent phase)
    if (st.g.isSetConformalTransformASIN() && ctx.excl("C12-conformal-lgamma-signgam")) { st.g.clearConformalTransform(); ctx.log("(conformal map removed: known finding)"); }
    const TasmanianSparseGrid &g = st.g; bool conformal = g.isSetConformalTransformASIN();
    if (g.getNumPoints() == 0) { ctx.label("skip:no-points"); return; }
    int nthreads = 2 + s.pick(7);
    std::vector<std::vector<Call>> plan((size_t)nthreads);
    std::vector<int> jitter((size_t)nthreads);
    int distinct_kinds = 0; std::set<int> seen;
    for (int t = 0; t < nthreads; t++) {
        int nc = 1 + s.pick(5); jitter[(size_t)t] = s.pick(4) * 300;
        for (int q = 0; q < nc; q++) { Call c; c.kind = s.pick(CK_NUM); int tries = 0; while (!applicable(g, c.kind, conformal) && tries++ < CK_NUM) c.kind = (c.kind + 1) % CK_NUM; if (!applicable(g, c.kind, conformal)) continue;
            c.nx = (c.kind == CK_BATCH || c.kind == CK_HDENSE || c.kind == CK_HSPARSE) ? 1 + s.pick(40) : 1; c.binary = s.pick(2) == 1;
            for (int i = 0; i < c.nx; i++) { auto x = domain_point(s, st); c.x.insert(c.x.end(), x.begin(), x.end()); }
            plan[(size_t)t].push_back(std::move(c)); seen.insert(plan[(size_t)t].back().kind); }
    }
    distinct_kinds = (int)seen.size();
    { std::ostringstream o; o << nthreads << " threads:"; for (auto &p : plan) { o << " ["; for (auto &c : p) o << ck_name(c.kind) << (c.nx > 1 ? "x" + std::to_string(c.nx) : "") << " "; o << "]"; } ctx.log(o.str()); }
    // sequential pre-pass on a COPY: the grid used by the threads must not have been touched by any const call before, otherwise lazily built
    // caches would already exist and the concurrent phase could not race on them
    std::vector<std::vector<std::vector<double>>> expect((size_t)nthreads);
    { TasmanianSparseGrid ref(st.g); for (int t = 0; t < nthreads; t++) for (auto &c : plan[(size_t)t]) expect[(size_t)t].push_back(run_call(ref, c)); }
    TasmanianSparseGrid second(st.g);   // round 1 runs on another untouched copy
    // known finding C12-wavelet-lazy-interpolation-matrix: the first weight query of a wavelet grid is made before the threads start
    if (st.g.isWavelet() && ctx.excl("C12-wavelet-lazy-interpolation-matrix")) { (void)st.g.getQuadratureWeights(); (void)second.getQuadratureWeights(); ctx.log("(wavelet interpolation matrix pre-built: known finding)"); }
    // concurrent rounds
    for (int round = 0; round < 2; round++) {
        const TasmanianSparseGrid &g = (round == 0) ? st.g : second;
        std::vector<std::vector<std::vector<double>>> got((size_t)nthreads); std::atomic<int> ready(0); std::atomic<bool> go(false); std::vector<std::string> errors((size_t)nthreads);
        std::vector<std::thread> th;
        for (int t = 0; t < nthreads; t++) th.emplace_back([&, t]() {
            ready.fetch_add(1); while (!go.load(std::memory_order_acquire)) std::this_thread::yield();
            volatile int spin = 0; for (int i = 0; i < jitter[(size_t)t] * (round + 1); i++) spin = spin + 1;
            try { for (auto &c : plan[(size_t)t]) got[(size_t)t].push_back(run_call(g, c)); } catch (std::exception &e) { errors[(size_t)t] = e.what(); } });
        while (ready.load() < nthreads) std::this_thread::yield(); go.store(true, std::memory_order_release);
        for (auto &x : th) x.join();
        for (int t = 0; t < nthreads; t++) {
            VF_REQUIRE("C12.exception-in-thread", errors[(size_t)t].empty(), "thread " << t << " threw: " << errors[(size_t)t]);
            for (size_t q = 0; q < plan[(size_t)t].size(); q++) VF_REQUIRE("C12.result-differs-from-sequential", q < got[(size_t)t].size() && same_bits(got[(size_t)t][q], expect[(size_t)t][q]), "thread " << t << " call " << ck_name(plan[(size_t)t][q].kind) << " returned a different result than when run alone (round " << round << ")");
        }
        ctx.count("concurrent-rounds");
    }
    ctx.label(std::string("fam:") + fam_name(st.spec.family)); ctx.label("threads:" + std::to_string(nthreads));
    for (int k : seen) ctx.label(std::string("call:") + ck_name(k));
    if (st.spec.family == F_WAVE && (seen.count(CK_IWEIGHTS) || seen.count(CK_QWEIGHTS))) ctx.label("wavelet-weight-queries");
    ctx.nontrivial = distinct_kinds >= 2 && g.getNumLoaded() > 0;
}
VF_REGISTER(C12, check_C12, "grid state from a generated history (all families; fresh, loaded, pending refinement, zero outputs, restored from a stream) x 2-8 threads x 1-5 const calls per thread with generated arguments x start jitter, two rounds; "
            "non-trivial = at least two different kinds of calls run concurrently on a grid with loaded values");

} // namespace vf
