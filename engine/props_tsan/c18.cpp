// C18 - parallel surrogate construction and loading: race-free, exactly-once, bounded.
// Generator: grid spec x budget (smaller / equal / larger than the candidate pool, smaller than the number of workers, smaller than the
// number of already loaded points) x workers 1-8 x batch 1-4 x tolerance (reached early / never) x per-call latency script for the model;
// both overload families of constructSurrogate<mode_parallel> and the threaded loadNeededValues (overwrite and non-overwrite).
// Oracle: ThreadSanitizer build; from the model-call log: no coordinate evaluated twice, calls with the same thread id never overlap,
// samples launched <= budget, the call returns (watchdog); afterwards every loaded point carries the value computed for its coordinate and
// the surrogate reproduces it.
#include "history.hpp"
#include "observe.hpp"
#include "TasmanianAddons.hpp"
#include <thread>
#include <atomic>
#include <mutex>
#include <chrono>

namespace vf {
namespace {
struct CallLog {
    std::mutex m; std::map<Coord, int> count; std::vector<std::atomic<int>> inflight; std::string error; long calls = 0, samples = 0; int max_id = -1;
    explicit CallLog(size_t ids) : inflight(ids) { for (auto &a : inflight) a.store(0); }
    void fail(const std::string &e) { std::lock_guard<std::mutex> l(m); if (error.empty()) error = e; }
};
void latency(int code) {   // 0: none, 1: short spin, 2: 200 us sleep, 3: 2 ms sleep
    if (code == 1) { volatile int q = 0; for (int i = 0; i < 2000; i++) q = q + 1; } else if (code == 2) std::this_thread::sleep_for(std::chrono::microseconds(200)); else if (code == 3) std::this_thread::sleep_for(std::chrono::milliseconds(2));
}
}

void check_C18(Src &s, Ctx &ctx) {
    SpecOpts so; so.nonnested = false; so.custom = false; so.conformal = false; so.min_outs = 1; so.max_outs = 2; so.cap = cfg().tier ? 70 : 50; so.max_dims = 3;
    GridState st; st.cap = so.cap; st.ctx = &ctx;
    st.spec = decode_spec(s, so); st.vm.decode(s);
    if (st.spec.depth > 2) st.spec.depth = 2;
    // rare class: a construction that grows beyond 1000 loaded points (the addon switches from immediate to amortised loading of completed samples there)
    bool big = cfg().tier == 1 && s.n > 1 && ((unsigned)s.p[s.n - 1] + 256u * (unsigned)s.p[s.n - 2]) % 1000u == 7u;   // thorough tier only: a run takes ~30 s under ThreadSanitizer on an idle machine, too close to the per-case budget of the quick tier (the property promises termination, so a case over budget counts); decided from the last two bytes, consumes nothing
    if (big) { GridSpec b; b.family = s.pick(2) ? F_WAVE : F_LOCALP; b.dims = 2; b.outs = 1; b.depth = 2; b.rule = b.family == F_WAVE ? rule_wavelet : rule_localp; b.order = 1; st.spec = b; st.vm.bump = 2.0; st.vm.sharp = 20.0; }
    make_grid(st.g, st.spec, so.cap); ctx.log(st.spec.text());
    auto &g = st.g; const int d = st.spec.dims, outs = st.spec.outs; bool local = st.spec.family == F_LOCALP || st.spec.family == F_WAVE;
    int mode = big ? 0 : s.weighted({5, 2});   // 0 constructSurrogate, 1 loadNeededValues
    bool start_loaded = s.chance(1, 2);
    if (start_loaded || mode == 1) { Op ld; ld.kind = OP_LOAD; apply_op(st, ld); }
    size_t workers = 1 + (size_t)s.pick(8), batch = 1 + (size_t)s.pick(4);
    std::vector<uint8_t> lat; { int n = 4 + s.pick(12); for (int i = 0; i < n; i++) lat.push_back((uint8_t)s.weighted({5, 3, 2, 1})); }
    CallLog log(16);   // more slots than any generated number of workers
    int salt = st.salt; const ValueModel vm = st.vm;
    auto model_body = [&](const double *x, size_t k, double *y, size_t thread_id) {
        if (thread_id >= log.inflight.size()) { log.fail("thread id " + std::to_string(thread_id) + " out of range"); return; }
        if (log.inflight[thread_id].fetch_add(1) != 0) log.fail("two model calls with thread id " + std::to_string(thread_id) + " overlap in time");
        long idx; { std::lock_guard<std::mutex> l(log.m); idx = log.calls++; log.samples += (long)k; log.max_id = std::max(log.max_id, (int)thread_id);
            if (cfg().echo) { printf("  .. model call %ld thread %zu:", idx, thread_id); for (size_t i = 0; i < k; i++) printf(" (%s)", joind(coord_of(x + i * (size_t)d, d)).c_str()); printf("\n"); fflush(stdout); }
            for (size_t i = 0; i < k; i++) { int &c = log.count[coord_of(x + i * (size_t)d, d)]; c++; if (c > 1 && log.error.empty()) log.error = "the model was called twice for the point (" + joind(coord_of(x + i * (size_t)d, d)) + ")"; } }
        latency(lat[(size_t)idx % lat.size()]);
        for (size_t i = 0; i < k; i++) for (int o = 0; o < outs; o++) y[i * (size_t)outs + (size_t)o] = vm(x + i * (size_t)d, d, o, salt);
        log.inflight[thread_id].fetch_sub(1);
    };
    size_t loaded_before = (size_t)g.getNumLoaded();
    std::ostringstream desc;
    if (mode == 0) {
        // budget relative to the pool: 0..(loaded + ~40)
        size_t budget; int bsel = s.pick(5);
        if (big) { budget = 1100 + 50 * (size_t)s.pick(8); workers = 2 + (size_t)s.pick(3); for (auto &l : lat) l = 0; ctx.label("big-construction"); }
        else if (bsel == 0) budget = (size_t)s.pick(4); else if (bsel == 1) budget = loaded_before + (size_t)s.pick((int)workers + 1); else if (bsel == 2) budget = loaded_before > 0 ? loaded_before - 1 : 1; else budget = loaded_before + 3 + (size_t)s.pick(40);
        ModelSignature model = [&](std::vector<double> const &x, std::vector<double> &y, size_t id) { size_t k = x.size() / (size_t)d; if (y.size() != k * (size_t)outs) y.resize(k * (size_t)outs); model_body(x.data(), k, y.data(), id); };
        std::vector<int> limits; if (s.chance(1, 4)) limits = decode_limits(s, d);
        desc << "constructSurrogate<parallel> budget=" << budget << " workers=" << workers << " batch=" << batch << (start_loaded ? " from a loaded grid of " : " from an unloaded grid, loaded=") << loaded_before << lim_text(limits);
        if (local) { double tol = s.of(std::vector<double>{1e-3, 1e-1, 0.0, 1e-6, 10.0}); TypeRefinement crit = s.of(REFINE_TYPES); if (big) { tol = 0.0; crit = refine_classic; limits.clear(); } desc << " tol=" << tol << " " << refine_name(crit); ctx.log(desc.str());
            constructSurrogate<mode_parallel>(model, budget, workers, batch, g, tol, crit, -1, limits); ctx.label(tol >= 1e-1 ? "tolerance-reached-early" : "tolerance-not-reached"); }
        else if (s.pick(2) == 0 || !st.aniso_capable()) { TypeDepth t = ALL_TYPES[(size_t)s.pick(9)]; auto aw = decode_aw(s, d, t); desc << " type=" << type_name(t) << " aw=[" << join(aw) << "]"; ctx.log(desc.str()); constructSurrogate<mode_parallel>(model, budget, workers, batch, g, t, aw, limits); }
        else { TypeDepth t = ALL_TYPES[(size_t)s.pick(9)]; int out = (st.spec.family == F_GLOBAL) ? 0 : -1; desc << " type=" << type_name(t) << " output=" << out; ctx.log(desc.str()); constructSurrogate<mode_parallel>(model, budget, workers, batch, g, t, out, limits); }
        VF_REQUIRE("C18.model-log", log.error.empty(), log.error);
        size_t allowed = budget > loaded_before ? budget - loaded_before : 0;
        VF_REQUIRE("C18.budget-exceeded", (size_t)log.samples <= allowed, "max_num_points=" << budget << " with " << loaded_before << " points already loaded allows " << allowed << " new samples but the model was asked for " << log.samples << " (workers=" << workers << ", batch=" << batch << ")");
        VF_REQUIRE("C18.thread-id", log.max_id < (int)workers, "thread id " << log.max_id << " with only " << workers << " workers");
        if (g.isUsingConstruction()) g.finishConstruction();
        // every computed value sits at its coordinate: dictionary from the log
        for (auto &kv : log.count) { std::vector<double> v((size_t)outs); for (int o = 0; o < outs; o++) v[(size_t)o] = vm(kv.first.data(), d, o, salt); st.dict[kv.first] = v; }
        if (budget < workers) ctx.label("budget<workers"); if (budget <= loaded_before) ctx.label("budget<=loaded");
    } else {
        bool overwrite = s.chance(1, 2); bool vector_model = s.chance(1, 2);
        if (!overwrite) { Op rf; rf.kind = local ? OP_REF_SURP : OP_REF_ANISO; rf.variant = 3; rf.crit = refine_classic; rf.type = type_iptotal; rf.min_growth = 3 + s.pick(10); rf.output = st.spec.family == F_GLOBAL ? 0 : -1; if (!apply_op(st, rf) || g.getNumNeeded() == 0) { ctx.label("skip:no-needed"); return; } }
        else { salt = ++st.salt; }
        size_t expect = (size_t)(overwrite ? g.getNumLoaded() : g.getNumNeeded());
        desc << "loadNeededValues<parallel," << (overwrite ? "overwrite" : "needed") << "> threads=" << workers << " points=" << expect << (vector_model ? " vector model" : " array model"); ctx.log(desc.str());
        auto pts_before = overwrite ? g.getLoadedPoints() : g.getNeededPoints();
        if (vector_model) { std::function<void(std::vector<double> const &, std::vector<double> &, size_t)> m = [&](std::vector<double> const &x, std::vector<double> &y, size_t id) { if (y.size() != (size_t)outs) y.resize((size_t)outs); model_body(x.data(), 1, y.data(), id); };
            if (overwrite) loadNeededValues<true, true>(m, g, workers); else loadNeededValues<true, false>(m, g, workers); }
        else { std::function<void(double const[], double[], size_t)> m = [&](double const x[], double y[], size_t id) { model_body(x, 1, y, id); };
            if (overwrite) loadNeededValues<true, true>(m, g, workers); else loadNeededValues<true, false>(m, g, workers); }
        VF_REQUIRE("C18.model-log", log.error.empty(), log.error);
        VF_REQUIRE("C18.load-count", (size_t)log.samples == expect, "threaded loadNeededValues called the model " << log.samples << " times for " << expect << " points");
        VF_REQUIRE("C18.thread-id", log.max_id < (int)workers, "thread id " << log.max_id << " with only " << workers << " threads");
        if (overwrite) st.dict.clear();
        st.record(pts_before, [&]() { std::vector<double> v; for (size_t i = 0; i < pts_before.size() / (size_t)d; i++) for (int o = 0; o < outs; o++) v.push_back(vm(&pts_before[i * (size_t)d], d, o, salt)); return v; }());
        ctx.label(overwrite ? "load:overwrite" : "load:needed");
    }
    // exactly-once + values at their coordinates + surrogate reproduces them
    bool complete = st.spec.family != F_LOCALP || parent_complete(st) || dag_closed(st);
    long n = check_nodal(ctx, "C18.value-at-wrong-point", st, st.spec.family == F_WAVE ? 1e-8 : 1e-9, complete);
    ctx.count("nodal-values", n); ctx.count("model-calls", log.calls);
    ctx.label(std::string("fam:") + fam_name(st.spec.family)); ctx.label(mode == 0 ? "mode:construct" : "mode:load"); ctx.label("workers:" + std::to_string(workers));
    bool skew = false; for (auto l : lat) if (l != lat[0]) skew = true; if (skew) ctx.label("latency:skewed");
    ctx.nontrivial = workers >= 2 && log.calls >= 3 && skew;
}
VF_REGISTER(C18, check_C18, "grid spec (nested rules, all families) x parallel constructSurrogate (both overload families; budget below/at/above the pool, below the worker count or the loaded count) or threaded loadNeededValues (needed / overwrite) "
            "x 1-8 workers x batch 1-4 x per-call latency script; non-trivial = at least 2 workers, at least 3 model calls and non-uniform latencies");

} // namespace vf
