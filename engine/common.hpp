// Core of the harness: total byte-stream decoder primitives, per-case context, failure type.
// No RNG, clock or iteration-order dependence anywhere in here: a case is a pure function of its bytes.
#pragma once
#include <cstdint>
#include <cstdio>
#include <cstring>
#include <cmath>
#include <string>
#include <vector>
#include <map>
#include <set>
#include <sstream>
#include <stdexcept>
#include <algorithm>
#include <functional>
#include <limits>

namespace vf {

// ---------------------------------------------------------------------------------------------
// Src: every byte string decodes to a sound case; exhausted input yields the simplest choice (0).
struct Src {
    const uint8_t *p; size_t n; size_t i = 0;
    Src(const uint8_t *d, size_t s) : p(d), n(s) {}
    explicit Src(const std::vector<uint8_t> &v) : p(v.data()), n(v.size()) {}
    bool exhausted() const { return i >= n; }
    uint8_t byte() { return i < n ? p[i++] : 0; }
    int pick(int k) { return k <= 1 ? 0 : (int)(byte() % (unsigned)k); }            // 0..k-1, 0 simplest
    int range(int lo, int hi) { return lo + pick(hi - lo + 1); }                     // lo..hi
    bool chance(int num, int den) { return (int)(byte() % (unsigned)den) >= den - num; } // false simplest
    unsigned u16() { unsigned a = byte(); return a | ((unsigned)byte() << 8); }
    template <class T> const T &of(const std::vector<T> &v) { return v[(size_t)pick((int)v.size())]; }
    // weighted pick: weights w[0..k-1]; index 0 should be the simplest
    int weighted(std::initializer_list<int> w) {
        int tot = 0; for (int x : w) tot += x;
        int r = pick(tot), k = 0;
        for (int x : w) { if (r < x) return k; r -= x; k++; }
        return 0;
    }
    double unit() { return byte() / 255.0; }                                         // 0..1 inclusive
};

// ---------------------------------------------------------------------------------------------
struct Violation : std::exception {
    std::string oracle, msg, full;
    Violation(std::string o, std::string m) : oracle(std::move(o)), msg(std::move(m)) { full = oracle + ": " + msg; }
    const char *what() const noexcept override { return full.c_str(); }
};
// thrown when a case cannot be used (documented rejection at make time etc.); counted, not a failure
struct Discard : std::exception { std::string why; explicit Discard(std::string w) : why(std::move(w)) {}
    const char *what() const noexcept override { return why.c_str(); } };

inline std::string hexd(double x) { char b[40]; snprintf(b, sizeof b, "%a", x); return b; }
inline std::string decd(double x) { char b[40]; snprintf(b, sizeof b, "%.17g", x); return b; }
template <class T> std::string join(const std::vector<T> &v, const char *sep = ",") {
    std::ostringstream o; bool f = true; for (auto &x : v) { if (!f) o << sep; o << x; f = false; } return o.str(); }
inline std::string joind(const std::vector<double> &v) { std::string s; for (size_t i = 0; i < v.size(); i++) { if (i) s += ","; s += decd(v[i]); } return s; }

inline uint64_t fnv1a(const std::string &s) { uint64_t h = 1469598103934665603ull; for (unsigned char c : s) { h ^= c; h *= 1099511628211ull; } return h; }

// ---------------------------------------------------------------------------------------------
// Global run configuration (set by the driver from the command line / known_findings.json)
struct RunConfig {
    std::set<std::string> known;      // ids of known findings with status "known": their class is excluded by construction
    bool no_exclude = false;          // witness replays run with exclusions off
    int tier = 0;                     // 0 quick, 1 thorough
    std::string workdir = ".";
    bool echo = false;                // replay --text: print the case text as it is produced (survives a crash)        // private scratch directory of this process (files for file I/O routes)
};
inline RunConfig &cfg() { static RunConfig c; return c; }

// Per-case context: classification labels, non-triviality, normalised text (hashed for distinctness)
struct Ctx {
    std::string text;                 // human readable, normalised description of the executed case
    std::vector<std::string> labels;  // classes for the distribution report
    bool nontrivial = false;
    std::map<std::string, long> counters;   // per-oracle evaluation counts etc.
    double max_ratio = 0;             // largest (error / tolerance) seen in this case
    std::vector<std::string> excluded; // known-finding classes skipped by construction
    void label(const std::string &l) { labels.push_back(l); }
    void count(const std::string &k, long n = 1) { counters[k] += n; }
    void log(const std::string &s) { text += s; text += "\n"; if (cfg().echo) { fputs(s.c_str(), stdout); fputc('\n', stdout); fflush(stdout); } }
    // exclusion of a known finding's class: true => the caller must skip the offending shape
    bool excl(const std::string &id) {
        if (cfg().no_exclude || !cfg().known.count(id)) return false;
        excluded.push_back(id); return true;
    }
    // tolerance check with a data-derived scale; records the ratio
    void close(const char *oracle, double a, double b, double scale, double tau, const std::function<std::string()> &where) {
        double err = std::fabs(a - b);
        if (std::isnan(a) || std::isnan(b) || std::isinf(a) || std::isinf(b)) {
            if (!(a == b)) throw Violation(oracle, where() + " got " + decd(a) + " expected " + decd(b));
            return;
        }
        double tol = tau * scale;
        if (tol > 0) { double r = err / tol; if (r > max_ratio) max_ratio = r; }
        if (err > tol) throw Violation(oracle, where() + " got " + decd(a) + " expected " + decd(b) + " err " + decd(err) + " tol " + decd(tol));
    }
};

using CheckFn = void (*)(Src &, Ctx &);
struct PropEntry { const char *id; CheckFn fn; const char *rule; };
inline std::vector<PropEntry> &registry() { static std::vector<PropEntry> r; return r; }
struct Registrar { Registrar(const char *id, CheckFn fn, const char *rule) { registry().push_back({id, fn, rule}); } };
#define VF_REGISTER(ID, FN, RULE) static ::vf::Registrar vf_reg_##ID(#ID, FN, RULE)

#define VF_REQUIRE(oracle, cond, msg) do { if (!(cond)) { std::ostringstream vf_o; vf_o << msg; throw ::vf::Violation(oracle, vf_o.str()); } } while (0)

} // namespace vf
