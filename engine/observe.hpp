// observe(grid): digest of everything observable through const public methods. Lines "key=value" with
// doubles in hexfloat, so two digests can be compared bitwise and the first difference reported.
#pragma once
#include "grid.hpp"

namespace vf {

struct Digest {
    // exact items are compared as strings (bitwise for doubles in hexfloat); approx items are numeric results that the
    // library recomputes from caches whose size depends on the history (e.g. a 1-D wrapper that was enlarged by a cancelled
    // refinement): they are compared to rounding, |a-b| <= 1e-9 * max(1, max|a|, max|b|) (weights of Leja-type rules are obtained by solves whose rounding depends on the cached number of levels)
    struct Item { std::string key, sval; std::vector<double> dval; bool approx = false; };
    std::vector<Item> items;
    void add(const std::string &k, const std::string &v) { Item it; it.key = k; it.sval = v; items.push_back(std::move(it)); }
    void addv(const std::string &k, const double *p, size_t n) { std::string s; s.reserve(n * 22); for (size_t i = 0; i < n; i++) { s += hexd(p[i]); s += ' '; } add(k, s); }
    void addv(const std::string &k, const std::vector<double> &v) { addv(k, v.data(), v.size()); }
    void addn(const std::string &k, const std::vector<double> &v) { Item it; it.key = k; it.dval = v; it.approx = true; items.push_back(std::move(it)); }
    void addi(const std::string &k, const int *p, size_t n) { std::string s; for (size_t i = 0; i < n; i++) { s += std::to_string(p[i]); s += ' '; } add(k, s); }
    void addi(const std::string &k, const std::vector<int> &v) { addi(k, v.data(), v.size()); }
};
// first difference between two digests ("" when equal)
inline std::string digest_diff(const Digest &a, const Digest &b, bool bitwise_numeric = false) {
    size_t n = std::min(a.items.size(), b.items.size());
    for (size_t i = 0; i < n; i++) {
        const auto &x = a.items[i], &y = b.items[i];
        if (x.key != y.key) return "key order differs at " + x.key + " vs " + y.key;
        if (x.approx) {
            if (x.dval.size() != y.dval.size()) return x.key + " has " + std::to_string(x.dval.size()) + " vs " + std::to_string(y.dval.size()) + " entries";
            double sc = 1.0; for (double v : x.dval) if (std::isfinite(v)) sc = std::max(sc, std::fabs(v)); for (double v : y.dval) if (std::isfinite(v)) sc = std::max(sc, std::fabs(v));
            for (size_t k = 0; k < x.dval.size(); k++) {
                double u = x.dval[k], v = y.dval[k];
                bool same = bitwise_numeric ? (std::memcmp(&u, &v, sizeof u) == 0 || u == v) : ((std::isnan(u) && std::isnan(v)) || u == v || std::fabs(u - v) <= 1e-9 * sc);
                if (!same) return x.key + "[" + std::to_string(k) + "] differs: " + decd(u) + " vs " + decd(v);
            }
        } else if (x.sval != y.sval) {
            size_t p = 0; while (p < x.sval.size() && p < y.sval.size() && x.sval[p] == y.sval[p]) p++;
            size_t from = p > 30 ? p - 30 : 0;
            return x.key + " differs at char " + std::to_string(p) + ": [" + x.sval.substr(from, 80) + "] vs [" + y.sval.substr(from, 80) + "]";
        }
    }
    if (a.items.size() != b.items.size()) return "digest length differs: " + std::to_string(a.items.size()) + " vs " + std::to_string(b.items.size());
    return "";
}

struct ObserveOpts {
    bool numeric = true;      // evaluate / weights / integrals at probe points
    bool structure = true;    // points, indexes, values, coefficients
    int out_begin = 0, out_end = -1;   // restriction of output-dependent quantities to [begin,end) (C11); -1 = all
    bool limits = true;
};

// fixed canonical probe points in [-1,1]; mapped per family/transform into the domain of the grid
inline std::vector<double> probe_points(const TasmanianSparseGrid &g, int nprobe = 5) {
    static const double base[] = {0.3, -0.45, 0.77, -0.9, 0.0625, 0.5, -0.125, 0.99, -0.6, 0.21, -0.33, 0.0};
    int d = g.getNumDimensions(); TypeOneDRule r = g.getRule();
    std::vector<double> a, b; bool tr = g.isSetDomainTransfrom(); if (tr) g.getDomainTransform(a, b);
    std::vector<double> x((size_t)(nprobe * d));
    for (int i = 0; i < nprobe; i++) for (int j = 0; j < d; j++) {
        double c = base[(i * 5 + j * 3 + i * j) % 12];
        if (r == rule_fourier) { c = 0.5 * (c + 1.0); if (tr) c = a[(size_t)j] + (b[(size_t)j] - a[(size_t)j]) * c; }
        else if (rule_laguerre(r)) { c = 1.5 * (c + 1.0); if (tr) c = c / b[(size_t)j] + a[(size_t)j]; }
        else if (rule_hermite(r)) { c = 2.0 * c; if (tr) c = c / std::sqrt(b[(size_t)j]) + a[(size_t)j]; }
        else if (tr) c = 0.5 * ((b[(size_t)j] - a[(size_t)j]) * c + (b[(size_t)j] + a[(size_t)j]));
        x[(size_t)(i * d + j)] = c;
    }
    return x;
}

inline Digest observe(const TasmanianSparseGrid &g, const ObserveOpts &o = ObserveOpts()) {
    Digest D;
    D.add("empty", g.empty() ? "1" : "0");
    if (g.empty()) return D;
    int d = g.getNumDimensions(), outs = g.getNumOutputs();
    int ob = o.out_begin, oe = (o.out_end < 0) ? outs : o.out_end; int no = oe - ob;
    D.add("family", g.isGlobal() ? "global" : g.isSequence() ? "sequence" : g.isLocalPolynomial() ? "localp" : g.isWavelet() ? "wavelet" : "fourier");
    D.add("rule", IO::getRuleString(g.getRule()));
    D.add("dims", std::to_string(d)); D.add("outs", std::to_string(no));
    D.add("alpha", hexd(g.getAlpha())); D.add("beta", hexd(g.getBeta())); D.add("order", std::to_string(g.getOrder()));
    D.add("custom", g.getCustomRuleDescription() ? g.getCustomRuleDescription() : "");
    D.add("nloaded", std::to_string(g.getNumLoaded())); D.add("nneeded", std::to_string(g.getNumNeeded())); D.add("npoints", std::to_string(g.getNumPoints()));
    D.add("constructing", g.isUsingConstruction() ? "1" : "0");
    if (o.limits) D.addi("limits", g.getLevelLimits());
    D.add("transform", g.isSetDomainTransfrom() ? "1" : "0");
    if (g.isSetDomainTransfrom()) { std::vector<double> a, b; g.getDomainTransform(a, b); D.addv("ta", a); D.addv("tb", b); }
    D.add("conformal", g.isSetConformalTransformASIN() ? "1" : "0");
    if (g.isSetConformalTransformASIN()) D.addi("asin", g.getConformalTransformASIN());
    int np = g.getNumPoints(), nl = g.getNumLoaded(), nn = g.getNumNeeded();
    if (o.structure) {
        if (nl > 0) D.addv("loaded_points", g.getLoadedPoints()); if (nn > 0) D.addv("needed_points", g.getNeededPoints()); D.addv("points", g.getPoints());
        if (np > 0) D.addi("point_indexes", g.getPointsIndexes(), (size_t)np * (size_t)d);
        if (nn > 0 && g.isLocalPolynomial()) D.addi("needed_indexes", g.getNeededIndexes(), (size_t)nn * (size_t)d);
        if (nl > 0 && outs > 0) {
            const double *v = g.getLoadedValues(); std::vector<double> vv;
            for (int i = 0; i < nl; i++) for (int k = ob; k < oe; k++) vv.push_back(v[(size_t)i * (size_t)outs + (size_t)k]);
            D.addv("values", vv);
            const double *c = g.getHierarchicalCoefficients(); std::vector<double> cc; int strips = g.isFourier() ? 2 : 1;
            for (int s = 0; s < strips; s++) for (int i = 0; i < nl; i++) for (int k = ob; k < oe; k++) cc.push_back(c[((size_t)s * (size_t)nl + (size_t)i) * (size_t)outs + (size_t)k]);
            D.addv("coefficients", cc);
        }
    }
    if (o.numeric && np > 0) {
        D.addn("quadrature", g.getQuadratureWeights());
        auto px = probe_points(g); int nprobe = (int)(px.size() / (size_t)d);
        for (int i = 0; i < std::min(nprobe, 2); i++) {
            std::vector<double> w((size_t)np); g.getInterpolationWeights(&px[(size_t)(i * d)], w.data()); D.addn("iweights" + std::to_string(i), w);
        }
        if (g.isGlobal() || g.isSequence()) { D.addi("polyspace_i", g.getGlobalPolynomialSpace(true)); D.addi("polyspace_q", g.getGlobalPolynomialSpace(false)); }
        D.addn("support", g.getHierarchicalSupport());
        if (nl > 0 && outs > 0) {
            std::vector<double> y((size_t)nprobe * (size_t)outs); g.evaluateBatch(px.data(), nprobe, y.data());
            std::vector<double> yy; for (int i = 0; i < nprobe; i++) for (int k = ob; k < oe; k++) yy.push_back(y[(size_t)i * (size_t)outs + (size_t)k]);
            D.addn("evaluate", yy);
            std::vector<double> q; g.integrate(q); D.addn("integrate", std::vector<double>(q.begin() + ob, q.begin() + oe));
            if (!g.isSetConformalTransformASIN()) {   // documented: no derivatives under a conformal map
                std::vector<double> jac; g.differentiate(std::vector<double>(px.begin(), px.begin() + d), jac);
                D.addn("differentiate", std::vector<double>(jac.begin() + (long)ob * d, jac.begin() + (long)oe * d)); }
        }
    }
    return D;
}

} // namespace vf
