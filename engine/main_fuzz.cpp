// Driver: coverage-guided search (libFuzzer) over the SAME total decoder and the SAME check functions as the rapidcheck driver.
// The semantic oracle runs inside the target: a Violation saves the input (VF_FAILOUT), prints the FAIL line, dumps the counters and traps
// (libFuzzer then also writes its crash-<sha1> artifact). Sanitizer reports abort through libFuzzer's own crash path.
// Configuration through the environment (libFuzzer owns the command line):
//   VF_PROP=C06  VF_OUT=stats.json  VF_FAILOUT=fail.case  VF_KNOWN=a,b  VF_TIER=0|1  VF_WORKDIR=dir
// The statistics file has the format of the rapidcheck driver, so the supervisor merges both engines into one evidence file.
#include "common.hpp"
#include <unistd.h>
#include <fstream>
#include <iostream>

using namespace vf;

namespace {
const PropEntry *g_prop = nullptr;
std::string g_out, g_failout;
struct Stats {
    long evaluations = 0, nontrivial = 0, discarded = 0;
    std::set<uint64_t> hashes; std::map<std::string, long> labels, counters, excluded;
    std::vector<std::string> samples; double max_ratio = 0;
} g_stats;

std::string jesc(const std::string &s) { std::string o; for (unsigned char c : s) { if (c == '"' || c == '\\') { o += '\\'; o += (char)c; } else if (c == '\n') o += "\\n"; else if (c < 32) { char b[8]; snprintf(b, sizeof b, "\\u%04x", c); o += b; } else o += (char)c; } return o; }
void dump_stats() {
    if (g_out.empty()) return;
    std::string tmp = g_out + ".tmp";
    FILE *f = fopen(tmp.c_str(), "w"); if (!f) return;
    fprintf(f, "{\"prop\":\"%s\",\"engine\":\"libfuzzer\",\"evaluations\":%ld,\"nontrivial\":%ld,\"discarded\":%ld,\"max_ratio\":%.6g,\n", g_prop ? g_prop->id : "", g_stats.evaluations, g_stats.nontrivial, g_stats.discarded, g_stats.max_ratio);
    fprintf(f, "\"rule\":\"%s\",\n", g_prop ? jesc(g_prop->rule).c_str() : "");
    auto dumpmap = [&](const char *name, const std::map<std::string, long> &m) { fprintf(f, "\"%s\":{", name); bool first = true; for (auto &kv : m) { fprintf(f, "%s\"%s\":%ld", first ? "" : ",", jesc(kv.first).c_str(), kv.second); first = false; } fprintf(f, "},\n"); };
    dumpmap("labels", g_stats.labels); dumpmap("counters", g_stats.counters); dumpmap("excluded", g_stats.excluded);
    fprintf(f, "\"samples\":["); for (size_t i = 0; i < g_stats.samples.size(); i++) fprintf(f, "%s\"%s\"", i ? "," : "", jesc(g_stats.samples[i]).c_str()); fprintf(f, "],\n");
    fprintf(f, "\"hashes\":["); bool first = true; for (auto h : g_stats.hashes) { fprintf(f, "%s\"%016llx\"", first ? "" : ",", (unsigned long long)h); first = false; } fprintf(f, "]}\n");
    fclose(f); rename(tmp.c_str(), g_out.c_str());
}
void at_exit() { dump_stats(); }
[[noreturn]] void fail(const uint8_t *data, size_t size, const std::string &oracle, const std::string &msg) {
    if (!g_failout.empty()) { std::ofstream f(g_failout, std::ios::binary); f.write((const char *)data, (std::streamsize)size); }
    printf("FAIL oracle=%s msg=%s\n", oracle.c_str(), msg.c_str()); fflush(stdout);
    dump_stats();
    __builtin_trap();
}
}

extern "C" int LLVMFuzzerInitialize(int *, char ***) {
    const char *p = getenv("VF_PROP"); std::string prop = p ? p : "";
    for (auto &e : registry()) if (prop == e.id) g_prop = &e;
    if (!g_prop) { fprintf(stderr, "VF_PROP does not name a property of this driver\n"); _exit(2); }
    if (const char *o = getenv("VF_OUT")) g_out = o;
    if (const char *o = getenv("VF_FAILOUT")) g_failout = o;
    if (const char *o = getenv("VF_TIER")) cfg().tier = atoi(o);
    if (const char *o = getenv("VF_WORKDIR")) cfg().workdir = o;
    if (const char *o = getenv("VF_KNOWN")) { std::stringstream ks(o); std::string k; while (std::getline(ks, k, ',')) if (!k.empty()) cfg().known.insert(k); }
    atexit(at_exit);
    return 0;
}

extern "C" int LLVMFuzzerTestOneInput(const uint8_t *data, size_t size) {
    // no global state to reset: Tasmanian keeps none (acceleration context is per object) and the check functions are pure functions of the bytes
    Src s(data, size); Ctx ctx; bool discard = false;
    try { g_prop->fn(s, ctx); }
    catch (Violation &v) { fail(data, size, v.oracle, v.msg); }
    catch (Discard &) { discard = true; }
    catch (std::runtime_error &e) { std::string m = e.what();   // (see main_rc.cpp: level beyond a finite rule table)
        if (m.find("rule needed with level") != std::string::npos && m.find(", but only ") != std::string::npos) discard = true; else fail(data, size, std::string(g_prop->id) + ".unexpected-exception", m); }
    catch (std::exception &e) { fail(data, size, std::string(g_prop->id) + ".unexpected-exception", e.what()); }
    catch (...) { fail(data, size, std::string(g_prop->id) + ".unexpected-exception", "non-std exception"); }
    g_stats.evaluations++;
    if (discard) g_stats.discarded++;
    else {
        for (auto &l : ctx.labels) g_stats.labels[l]++;
        for (auto &kv : ctx.counters) g_stats.counters[kv.first] += kv.second;
        for (auto &e : ctx.excluded) g_stats.excluded[e]++;
        if (ctx.max_ratio > g_stats.max_ratio) g_stats.max_ratio = ctx.max_ratio;
        if (ctx.nontrivial) { g_stats.nontrivial++;
            if (g_stats.hashes.insert(fnv1a(ctx.text)).second && g_stats.samples.size() < 4 && (g_stats.hashes.size() % 197 == 1)) g_stats.samples.push_back(ctx.text); }
    }
    if (g_stats.evaluations % 512 == 0) dump_stats();
    return 0;
}
