// History runner and shared model-based helpers (canonical coordinates, parent completeness, nodal reproduction oracle)
#pragma once
#include "grid.hpp"
#include "refmodel/hier1d.hpp"
#include "tsgRuleLocalPolynomial.hpp"

namespace vf {

template <class F> void run_history(Src &s, GridState &st, const std::vector<int> &kinds, int nops, bool load_first, F &&after) {
    auto has = [&](int k) { return std::find(kinds.begin(), kinds.end(), k) != kinds.end(); };
    for (int i = 0; i < nops; i++) {
        Op op;
        if (i == 0 && load_first) op.kind = OP_LOAD;
        else if (st.constructing && has(OP_LOAD_CONSTR)) {   // state-aware choice: construction is a chain candidates -> deliveries -> finish
            static const std::vector<int> with_c = {OP_LOAD_CONSTR, OP_LOAD_CONSTR, OP_LOAD_CONSTR, OP_LOAD_CONSTR, OP_CANDIDATES, OP_FINISH_CONSTR};
            static const std::vector<int> without_c = {OP_CANDIDATES, OP_CANDIDATES, OP_CANDIDATES, OP_FINISH_CONSTR};
            static const std::vector<int> with_t = {OP_LOAD_CONSTR, OP_LOAD_CONSTR, OP_LOAD_CONSTR, OP_CANDIDATES, OP_CANDIDATES, OP_FINISH_CONSTR};
            op = decode_op(s, st.spec, (st.candidates.empty() && st.target.empty()) ? without_c : (st.candidates.empty() ? with_t : with_c));
        } else op = decode_op(s, st.spec, kinds);
        // family-aware remapping so that bytes are not wasted on ops the family does not have
        if ((op.kind == OP_REF_ANISO || op.kind == OP_UPDATE) && (st.spec.family == F_LOCALP || st.spec.family == F_WAVE) && has(OP_REF_SURP)) op.kind = OP_REF_SURP;
        else if (op.kind == OP_REF_SURP && !st.surplus_capable() && st.aniso_capable() && has(OP_REF_ANISO)) { op.kind = OP_REF_ANISO; if (is_tensor_type(op.type)) op.type = type_level; if (op.min_growth < 1) op.min_growth = 1; }
        if (apply_op(st, op)) {
            after(op);
            // the usual adaptive loop is refine -> load: follow a successful proposal by a load half of the time so that multi-round adaptive
            // grids (with gaps in the hierarchy) are reached with few bytes
            if ((op.kind == OP_REF_SURP || op.kind == OP_REF_ANISO || op.kind == OP_UPDATE) && st.g.getNumNeeded() > 0 && has(OP_LOAD) && s.chance(1, 2)) {
                Op ld; ld.kind = OP_LOAD; if (apply_op(st, ld)) after(ld);
                // several selective rounds in a row (local families): the standard adaptive loop, which is what produces hierarchies with gaps
                if (op.kind == OP_REF_SURP && (st.spec.family == F_LOCALP || st.spec.family == F_WAVE) && s.chance(1, 2)) {
                    int rounds = 1 + s.pick(4); Op again = op; again.variant |= 1; again.limits.clear();
                    for (int r = 0; r < rounds && st.g.getNumLoaded() < st.cap; r++) { if (!apply_op(st, again)) break; after(again); if (st.g.getNumNeeded() == 0) break; if (apply_op(st, ld)) after(ld); }
                } }
        }
    }
}

inline h1d::Kind h1d_kind(const GridSpec &sp) {
    if (sp.family == F_WAVE) return sp.order == 3 ? h1d::WAVE3 : h1d::WAVE1;
    switch (sp.rule) { case rule_semilocalp: return h1d::SEMILOCALP; case rule_localp0: return h1d::LOCALP0; case rule_localpb: return h1d::LOCALPB; default: return h1d::LOCALP; }
}

// canonical coordinates of the loaded / needed points: taken from a copy of the grid with all transforms removed
inline void canonical_points(const TasmanianSparseGrid &g, std::vector<double> &loaded, std::vector<double> &needed) {
    TasmanianSparseGrid c = g; c.clearConformalTransform(); c.clearDomainTransform();
    loaded = c.getNumLoaded() ? c.getLoadedPoints() : std::vector<double>();
    needed = c.getNumNeeded() ? c.getNeededPoints() : std::vector<double>();
}

// Local polynomial grids: does every loaded point have all of its hierarchical parents (in every direction) loaded?
inline bool parent_complete(const GridState &st) {
    const auto &g = st.g; int d = st.spec.dims, n = g.getNumLoaded();
    if (n == 0) return true;
    if (st.spec.order == 0) {   // triadic hierarchy with step-parents: library index functions (weakness stated in DESIGN)
        const int *idx = g.getPointsIndexes(); std::set<std::vector<int>> have;
        for (int i = 0; i < n; i++) have.insert(std::vector<int>(idx + (size_t)i * (size_t)d, idx + (size_t)(i + 1) * (size_t)d));
        for (auto p : have) for (int j = 0; j < d; j++) {
            int save = p[(size_t)j];
            for (int par : {RuleLocal::getParent<RuleLocal::erule::pwc>(save), RuleLocal::getStepParent<RuleLocal::erule::pwc>(save)}) {
                if (par < 0) continue; p[(size_t)j] = par; if (!have.count(p)) return false; }
            p[(size_t)j] = save;
        }
        return true;
    }
    std::vector<double> lp, np; canonical_points(g, lp, np);
    std::set<Coord> have; for (int i = 0; i < n; i++) have.insert(coord_of(&lp[(size_t)i * (size_t)d], d));
    h1d::Kind k = h1d_kind(st.spec);
    for (auto p : have) for (int j = 0; j < d; j++) {
        double save = p[(size_t)j];
        for (double par : h1d::parents(k, save)) { p[(size_t)j] = par + 0.0; if (!have.count(p)) return false; }
        p[(size_t)j] = save;
    }
    return true;
}

// Local polynomial grids with gaps (the usual result of adaptive refinement): the hierarchical surpluses are computed by walking, from every point and in every direction,
// to the nearest PRESENT ancestor (other coordinates fixed) and on from there. That is exact interpolation iff every loaded point R that is an ancestor-or-equal of P in every
// direction (exactly the points whose basis function can be non-zero at P) is reachable from P by that walk. dag_closed() decides this from the coordinates alone
// (1-D hierarchy model) for the single-parent rules localp and localp-zero with order >= 1; for the other rules, order 0, and large sets it falls back to parent_complete().
// Point sets with a gap that is NOT closed (e.g. (1,1,1) without any point (0,1,*) or (*,1,0)) stay outside the assertion: see finding C04-incomplete-hierarchy-incremental-surpluses.
inline bool dag_closed(const GridState &st) {
    const auto &g = st.g; int d = st.spec.dims, n = g.getNumLoaded();
    if (n == 0) return true;
    bool single_parent = st.spec.family == F_LOCALP && st.spec.order != 0 && (st.spec.rule == rule_localp || st.spec.rule == rule_localp0);
    if (!single_parent || n > 450) return parent_complete(st);
    std::vector<double> lp, np; canonical_points(g, lp, np);
    std::map<Coord, int> id; for (int i = 0; i < n; i++) id[coord_of(&lp[(size_t)i * (size_t)d], d)] = i;
    h1d::Kind k = h1d_kind(st.spec);
    auto chain = [&](double x) { std::vector<double> c; double cur = x; for (int guard = 0; guard < 40; guard++) { auto pr = h1d::parents(k, cur); if (pr.empty()) break; cur = pr[0] + 0.0; c.push_back(cur); } return c; };   // parent, grand-parent, ..., root
    std::map<double, std::vector<double>> chains;
    for (auto &kv : id) for (int j = 0; j < d; j++) if (!chains.count(kv.first[(size_t)j])) chains[kv.first[(size_t)j]] = chain(kv.first[(size_t)j]);
    // nearest present ancestor of point q in direction j (-1: none)
    auto up = [&](const Coord &q, int j) { Coord t = q; for (double a : chains[q[(size_t)j]]) { t[(size_t)j] = a; auto it = id.find(t); if (it != id.end()) return it->second; } return -1; };
    std::vector<std::vector<int>> edges((size_t)n); std::vector<Coord> pts((size_t)n);
    for (auto &kv : id) { pts[(size_t)kv.second] = kv.first; for (int j = 0; j < d; j++) { int a = up(kv.first, j); if (a >= 0) edges[(size_t)kv.second].push_back(a); } }
    std::vector<char> seen((size_t)n);
    for (int p = 0; p < n; p++) {
        std::fill(seen.begin(), seen.end(), 0); std::vector<int> stack = {p}; seen[(size_t)p] = 1;
        while (!stack.empty()) { int q = stack.back(); stack.pop_back(); for (int a : edges[(size_t)q]) if (!seen[(size_t)a]) { seen[(size_t)a] = 1; stack.push_back(a); } }
        // every loaded ancestor-or-equal (in the product order) must have been reached: enumerate the product of the chains
        std::vector<std::vector<double>> opts((size_t)d); size_t total = 1;
        for (int j = 0; j < d; j++) { opts[(size_t)j] = chains[pts[(size_t)p][(size_t)j]]; opts[(size_t)j].insert(opts[(size_t)j].begin(), pts[(size_t)p][(size_t)j]); total *= opts[(size_t)j].size(); }
        if (total > 20000) return parent_complete(st);
        std::vector<size_t> ix((size_t)d, 0);
        for (size_t c = 0; c < total; c++) {
            Coord r((size_t)d); for (int j = 0; j < d; j++) r[(size_t)j] = opts[(size_t)j][ix[(size_t)j]];
            auto it = id.find(r); if (it != id.end() && !seen[(size_t)it->second]) return false;
            for (int j = 0; j < d; j++) { if (++ix[(size_t)j] < opts[(size_t)j].size()) break; ix[(size_t)j] = 0; }
        }
    }
    return true;
}

// true when the library's own inverse linear map (x*rate - shift) sends x outside [-1,1] by rounding (known finding *-wavelet-transformed-boundary)
inline bool lib_canonical_outside(const TasmanianSparseGrid &g, const double *x) {
    if (!g.isSetDomainTransfrom()) return false;
    std::vector<double> a, b; g.getDomainTransform(a, b); int d = g.getNumDimensions();
    for (int j = 0; j < d; j++) { double rate = 2.0 / (b[(size_t)j] - a[(size_t)j]), shift = (b[(size_t)j] + a[(size_t)j]) / (b[(size_t)j] - a[(size_t)j]);
        double t = x[j]; t *= rate; t -= shift; if (std::fabs(t) > 1.0) return true; }
    return false;
}

// Nodal reproduction (C01 oracle, reused by C09/C17/C18): every loaded point carries the dictionary value and evaluate*/batch reproduce it.
// Returns the number of points checked. tau is relative to S = max(|v|_inf, sum_j |c_j||phi_j(x_i)|).
inline long check_nodal(Ctx &ctx, const char *oracle, const GridState &st, double tau, bool assert_values = true) {
    const auto &g = st.g; int d = st.spec.dims, outs = st.spec.outs, n = g.getNumLoaded();
    if (n == 0 || outs == 0) return 0;
    std::vector<double> pts = g.getLoadedPoints();
    std::vector<double> expect((size_t)n * (size_t)outs);
    for (int i = 0; i < n; i++) {
        auto it = st.dict.find(coord_of(&pts[(size_t)i * (size_t)d], d));
        VF_REQUIRE(oracle, it != st.dict.end(), "loaded point #" << i << " (" << joind(Coord(pts.begin() + (long)i * d, pts.begin() + (long)(i + 1) * d)) << ") was never supplied with a value");
        std::copy(it->second.begin(), it->second.end(), expect.begin() + (long)i * outs);
    }
    if (!assert_values) return 0;
    // known finding C01-wavelet-transformed-boundary: loaded points whose library-style canonical image rounds outside [-1,1]
    std::vector<char> skip((size_t)n, 0); long nskip = 0;
    if (g.isWavelet() && g.isSetDomainTransfrom() && ctx.excl(std::string(oracle).substr(0, 3) + "-wavelet-transformed-boundary")) {   // one entry per affected property (C01, C18, ...)
        std::vector<double> a, b; g.getDomainTransform(a, b);
        for (int i = 0; i < n; i++) for (int j = 0; j < d; j++) {
            double rate = 2.0 / (b[(size_t)j] - a[(size_t)j]), shift = (b[(size_t)j] + a[(size_t)j]) / (b[(size_t)j] - a[(size_t)j]);
            double t = pts[(size_t)i * (size_t)d + (size_t)j]; t *= rate; t -= shift;
            if (std::fabs(t) > 1.0) { skip[(size_t)i] = 1; }
        }
        for (char c : skip) nskip += c; ctx.count("excluded-boundary-points", nskip);
    }
    // data-derived scale per point and output
    std::vector<double> H; g.evaluateHierarchicalFunctions(pts, H);
    const double *c = g.getHierarchicalCoefficients(); bool fourier = g.isFourier();
    std::vector<double> S((size_t)n * (size_t)outs, 0.0);
    size_t nb = (size_t)n;
    // floor of the scale: the largest coefficient of the output (a sum of rounding noise must not be compared with a scale that is itself noise)
    std::vector<double> cmax((size_t)outs, 0.0);
    for (size_t j = 0; j < nb * (fourier ? 2u : 1u); j++) for (int k = 0; k < outs; k++) cmax[(size_t)k] = std::max(cmax[(size_t)k], std::fabs(c[j * (size_t)outs + (size_t)k]));
    for (int i = 0; i < n; i++) for (int k = 0; k < outs; k++) {
        double s = cmax[(size_t)k];
        if (!fourier) for (size_t j = 0; j < nb; j++) s += std::fabs(c[j * (size_t)outs + (size_t)k]) * std::fabs(H[(size_t)i * nb + j]);
        else for (size_t j = 0; j < nb; j++) s += std::fabs(c[j * (size_t)outs + (size_t)k]) * std::fabs(H[2 * ((size_t)i * nb + j)]) + std::fabs(c[(nb + j) * (size_t)outs + (size_t)k]) * std::fabs(H[2 * ((size_t)i * nb + j) + 1]);
        S[(size_t)i * (size_t)outs + (size_t)k] = std::max(s, std::fabs(expect[(size_t)i * (size_t)outs + (size_t)k]));
    }
    if (g.isSetConformalTransformASIN()) tau = std::max(tau, 1e-7);   // the library inverts the asin map by a Newton iteration stopped at 1e-12
    std::vector<double> y; g.evaluateBatch(pts, y);
    VF_REQUIRE(oracle, y.size() == expect.size(), "evaluateBatch returned " << y.size() << " numbers, expected " << expect.size());
    for (int i = 0; i < n; i++) for (int k = 0; k < outs; k++) {
        size_t q = (size_t)i * (size_t)outs + (size_t)k; if (skip[(size_t)i]) continue;
        ctx.close(oracle, y[q], expect[q], S[q], tau, [&]() { std::ostringstream o; o << "evaluateBatch at loaded point #" << i << " (" << joind(Coord(pts.begin() + (long)i * d, pts.begin() + (long)(i + 1) * d)) << ") output " << k; return o.str(); });
    }
    int stride = n <= 60 ? 1 : n / 40;
    std::vector<double> y1((size_t)outs), y2((size_t)outs);
    for (int i = 0; i < n; i += stride) {
        if (skip[(size_t)i]) continue;
        std::fill(y1.begin(), y1.end(), 1e10); std::fill(y2.begin(), y2.end(), -1e10);
        g.evaluate(&pts[(size_t)i * (size_t)d], y1.data()); g.evaluateFast(&pts[(size_t)i * (size_t)d], y2.data());
        for (int k = 0; k < outs; k++) { size_t q = (size_t)i * (size_t)outs + (size_t)k;
            ctx.close(oracle, y1[(size_t)k], expect[q], S[q], tau, [&]() { return "evaluate at loaded point #" + std::to_string(i) + " output " + std::to_string(k); });
            ctx.close(oracle, y2[(size_t)k], expect[q], S[q], tau, [&]() { return "evaluateFast at loaded point #" + std::to_string(i) + " output " + std::to_string(k); }); }
    }
    return (long)n * outs;
}

} // namespace vf
