// Shared generators: grid specification, value model, operation histories executed through the public API.
#pragma once
#include "common.hpp"
#include "TasmanianSparseGrid.hpp"
#include <fstream>

namespace vf {
using namespace TasGrid;

enum Fam { F_GLOBAL = 0, F_SEQ = 1, F_LOCALP = 2, F_WAVE = 3, F_FOURIER = 4 };
inline const char *fam_name(int f) { static const char *n[] = {"global", "sequence", "localp", "wavelet", "fourier"}; return n[f]; }

static const std::vector<TypeDepth> ALL_TYPES = {type_level, type_iptotal, type_qptotal, type_curved, type_hyperbolic, type_ipcurved, type_qpcurved,
                                                 type_iphyperbolic, type_qphyperbolic, type_tensor, type_iptensor, type_qptensor};
inline bool is_curved(TypeDepth t) { return t == type_curved || t == type_ipcurved || t == type_qpcurved; }
inline const char *type_name(TypeDepth t) {
    switch (t) { case type_level: return "level"; case type_curved: return "curved"; case type_hyperbolic: return "hyperbolic";
    case type_iptotal: return "iptotal"; case type_qptotal: return "qptotal"; case type_ipcurved: return "ipcurved"; case type_qpcurved: return "qpcurved";
    case type_iphyperbolic: return "iphyperbolic"; case type_qphyperbolic: return "qphyperbolic"; case type_tensor: return "tensor";
    case type_iptensor: return "iptensor"; case type_qptensor: return "qptensor"; default: return "none"; } }

// nested global rules first (C01 needs them), then non-nested
static const std::vector<TypeOneDRule> GLOBAL_NESTED = {rule_clenshawcurtis, rule_clenshawcurtis0, rule_fejer2, rule_leja, rule_lejaodd, rule_rleja, rule_rlejadouble2,
    rule_rlejadouble4, rule_rlejaodd, rule_rlejashifted, rule_rlejashiftedeven, rule_rlejashifteddouble, rule_maxlebesgue, rule_maxlebesgueodd,
    rule_minlebesgue, rule_minlebesgueodd, rule_mindelta, rule_mindeltaodd, rule_gausspatterson};
static const std::vector<TypeOneDRule> GLOBAL_NONNESTED = {rule_chebyshev, rule_chebyshevodd, rule_gausslegendre, rule_gausslegendreodd, rule_gausschebyshev1,
    rule_gausschebyshev1odd, rule_gausschebyshev2, rule_gausschebyshev2odd, rule_gaussgegenbauer, rule_gaussgegenbauerodd, rule_gaussjacobi, rule_gaussjacobiodd,
    rule_gausslaguerre, rule_gausslaguerreodd, rule_gausshermite, rule_gausshermiteodd};
static const std::vector<TypeOneDRule> SEQ_RULES = {rule_leja, rule_rleja, rule_rlejashifted, rule_maxlebesgue, rule_minlebesgue, rule_mindelta};
static const std::vector<TypeOneDRule> LOCAL_RULES = {rule_localp, rule_semilocalp, rule_localp0, rule_localpb};
static const std::vector<TypeRefinement> REFINE_TYPES = {refine_classic, refine_parents_first, refine_direction_selective, refine_fds, refine_stable};
inline const char *refine_name(TypeRefinement r) { switch (r) { case refine_classic: return "classic"; case refine_parents_first: return "parents"; case refine_direction_selective: return "direction";
    case refine_fds: return "fds"; case refine_stable: return "stable"; default: return "none"; } }

inline bool rule_unbounded(TypeOneDRule r) { return r == rule_gausslaguerre || r == rule_gausslaguerreodd || r == rule_gausshermite || r == rule_gausshermiteodd; }
inline bool rule_laguerre(TypeOneDRule r) { return r == rule_gausslaguerre || r == rule_gausslaguerreodd; }
inline bool rule_hermite(TypeOneDRule r) { return r == rule_gausshermite || r == rule_gausshermiteodd; }
inline bool rule_uses_alpha(TypeOneDRule r) { return r == rule_gaussgegenbauer || r == rule_gaussgegenbauerodd || r == rule_gaussjacobi || r == rule_gaussjacobiodd || rule_unbounded(r); }
inline bool rule_uses_beta(TypeOneDRule r) { return r == rule_gaussjacobi || r == rule_gaussjacobiodd; }
inline bool rule_zero_boundary(TypeOneDRule r) { return r == rule_clenshawcurtis0 || r == rule_localp0; }
inline std::string rule_name(TypeOneDRule r) { return IO::getRuleString(r); }

struct GridSpec {
    int family = F_GLOBAL, dims = 1, outs = 1, depth = 0;
    TypeDepth type = type_level; TypeOneDRule rule = rule_clenshawcurtis; int order = 1;
    double alpha = 0, beta = 0;
    bool custom = false;                 // custom tabulated rule built in memory from Gauss-Legendre tables
    std::vector<int> aw, limits;
    std::vector<double> ta, tb;          // linear transform (empty = none)
    std::vector<int> conformal;          // asin truncation (empty = none)
    bool nested() const { return family != F_GLOBAL || (!custom && !OneDimensionalMeta::isNonNested(rule)); }
    std::string text() const {
        std::ostringstream o;
        o << fam_name(family) << " d=" << dims << " out=" << outs << " depth=" << depth;
        if (family == F_GLOBAL || family == F_SEQ || family == F_FOURIER) o << " type=" << type_name(type);
        if (family == F_GLOBAL || family == F_SEQ || family == F_LOCALP) o << " rule=" << (custom ? std::string("custom-gl") : rule_name(rule));
        if (family == F_LOCALP || family == F_WAVE) o << " order=" << order;
        if (family == F_GLOBAL && rule_uses_alpha(rule)) o << " alpha=" << alpha; if (family == F_GLOBAL && rule_uses_beta(rule)) o << " beta=" << beta;
        if (!aw.empty()) o << " aw=[" << join(aw) << "]";
        if (!limits.empty()) o << " limits=[" << join(limits) << "]";
        if (!ta.empty()) o << " a=[" << joind(ta) << "] b=[" << joind(tb) << "]";
        if (!conformal.empty()) o << " asin=[" << join(conformal) << "]";
        return o.str();
    }
};

struct SpecOpts {
    unsigned fam_mask = 0x1f;
    bool nonnested = true, unbounded = true, custom = true;
    int max_dims = 4, min_outs = 0, max_outs = 3;
    int cap = 400;                      // maximum number of points of the initial grid
    bool transforms = true, conformal = true, limits = true, aniso = true;
    int min_depth = 0;
    bool local_order0 = true;           // allow piece-wise constant local polynomials
    bool zero_boundary = true;
};

static const std::vector<double> ALPHAS = {0.0, 0.5, 1.0, 1.0 / 3.0, -0.5, 1.5, 0.41421356237309515, -0.75, 0.1, 2.0, 3.0};   // includes values that need all 17 digits in a text file
static const std::vector<std::pair<double, double>> BOUNDED_AB = {{0, 1}, {-2, 3}, {0.5, 0.75}, {-5, -1}, {1.0 / 3.0, 2.0 / 3.0}, {-0.125, 0.375}, {-1, 1}, {3, 3.5}, {-0.1, 0.7}, {1, 10}};
static const std::vector<std::pair<double, double>> UNBOUNDED_AB = {{0, 1}, {1, 2}, {-1, 0.5}, {2, 3}, {0, 0.25}, {-3, 4}, {0.1, 1.0 / 3.0}};

inline std::vector<int> decode_limits(Src &s, int dims) { std::vector<int> l((size_t)dims); for (auto &x : l) x = s.range(-1, 3); return l; }
inline bool is_tensor_type(TypeDepth t) { return t == type_tensor || t == type_iptensor || t == type_qptensor; }
inline std::vector<int> decode_aw(Src &s, int dims, TypeDepth type) {
    std::vector<int> w;
    // full-tensor types multiply the depth by the weight (level = depth * weight for level-exact rules): keep the product small
    for (int j = 0; j < dims; j++) w.push_back(is_tensor_type(type) ? s.range(1, 2) : s.range(1, 4));
    if (is_curved(type)) for (int j = 0; j < dims; j++) w.push_back(s.range(0, 5) - 2);   // curved part in [-2,3]
    return w;
}

inline int max_depth_for(int family, int dims) {
    static const int g[5] = {0, 6, 5, 4, 3};
    static const int f[5] = {0, 4, 3, 2, 2};
    return family == F_FOURIER ? f[dims] : g[dims];
}

inline GridSpec decode_spec(Src &s, const SpecOpts &o) {
    GridSpec sp;
    std::vector<int> fams; for (int f = 0; f < 5; f++) if (o.fam_mask & (1u << f)) fams.push_back(f);
    sp.family = fams[(size_t)s.pick((int)fams.size())];
    int dsel = s.weighted({4, 4, 3, 1}); sp.dims = std::min(1 + dsel, o.max_dims);
    sp.outs = o.min_outs + s.pick(o.max_outs - o.min_outs + 1);
    if (o.min_outs == 0) { int k = s.pick(o.max_outs + 1); sp.outs = (k == 0) ? 1 : (k == 1 ? 0 : k); if (sp.outs > o.max_outs) sp.outs = o.max_outs; }
    sp.depth = std::max(o.min_depth, s.range(0, max_depth_for(sp.family, sp.dims)));
    if (sp.family == F_GLOBAL || sp.family == F_SEQ || sp.family == F_FOURIER) sp.type = s.of(ALL_TYPES);
    switch (sp.family) {
    case F_GLOBAL: {
        int cls = o.nonnested ? s.weighted({5, 4, (o.custom ? 1 : 0)}) : 0;
        if (cls == 0) sp.rule = s.of(GLOBAL_NESTED);
        else if (cls == 1) { sp.rule = s.of(GLOBAL_NONNESTED); if (!o.unbounded && rule_unbounded(sp.rule)) sp.rule = rule_gausslegendre; }
        else { sp.rule = rule_customtabulated; sp.custom = true; }
        if (!o.zero_boundary && sp.rule == rule_clenshawcurtis0) sp.rule = rule_clenshawcurtis;
        if (rule_uses_alpha(sp.rule)) sp.alpha = s.of(ALPHAS);
        if (rule_uses_beta(sp.rule)) sp.beta = s.of(ALPHAS);
        break; }
    case F_SEQ: sp.rule = s.of(SEQ_RULES); break;
    case F_LOCALP: {
        sp.rule = s.of(LOCAL_RULES);
        if (!o.zero_boundary && sp.rule == rule_localp0) sp.rule = rule_localp;
        static const std::vector<int> orders = {1, 2, 3, 0, -1, 4, 5};
        sp.order = s.of(orders);
        if (!o.local_order0 && sp.order == 0) sp.order = 1;
        break; }
    case F_WAVE: sp.rule = rule_wavelet; sp.order = s.pick(2) ? 3 : 1; break;
    case F_FOURIER: sp.rule = rule_fourier; break;
    }
    bool has_type = sp.family == F_GLOBAL || sp.family == F_SEQ || sp.family == F_FOURIER;
    if (o.aniso && has_type && s.chance(1, 3)) { sp.aw = decode_aw(s, sp.dims, sp.type); if (is_tensor_type(sp.type)) sp.depth = (sp.depth + 1) / 2; }
    if (o.limits && s.chance(1, 4)) sp.limits = decode_limits(s, sp.dims);
    if (o.transforms && s.chance(1, 3)) {
        for (int j = 0; j < sp.dims; j++) {
            auto ab = (sp.family == F_GLOBAL && rule_unbounded(sp.rule)) ? s.of(UNBOUNDED_AB) : s.of(BOUNDED_AB);
            sp.ta.push_back(ab.first); sp.tb.push_back(ab.second);
        }
    }
    bool canon11 = sp.family != F_FOURIER && !(sp.family == F_GLOBAL && rule_unbounded(sp.rule));
    if (o.conformal && canon11 && s.chance(1, 6)) for (int j = 0; j < sp.dims; j++) sp.conformal.push_back(s.range(0, 6));
    return sp;
}

// in-memory custom rule: Gauss-Legendre tables for levels 0..L (level l has l+1 nodes, exact to degree 2l+1)
inline CustomTabulated make_custom_gl(int levels) {
    std::vector<int> nn, prec; std::vector<std::vector<double>> nodes, weights;
    for (int l = 0; l < levels; l++) {
        TasmanianSparseGrid t; t.makeGlobalGrid(1, 0, l, type_level, rule_gausslegendre);
        nodes.push_back(t.getPoints()); weights.push_back(t.getQuadratureWeights());
        nn.push_back(l + 1); prec.push_back(2 * l + 1);
    }
    return CustomTabulated(std::move(nn), std::move(prec), std::move(nodes), std::move(weights), std::string("verif custom gauss-legendre"));
}

// Size estimate of a make/update request with a curved depth type and negative log-weights, computed from the documented selection formula BEFORE the library is asked:
// index i is selected iff sum_j xi_j E_j(i_j) + eta_j log(1 + E_j(i_j)) <= depth * min_j xi_j (E = 1 + exactness of the previous level, the level itself for level types),
// and the set is completed to a lower set; with g_j = suffix minimum of the 1-D terms the completed set is exactly {i : sum_j g_j(i_j) <= bound}. With eta < 0 the step from one
// depth to the next can be from hundreds to billions of points, so "build it and count" (the way every other size cap of the generators works) cannot be used here.
// Returns true when the request is certainly larger than max_points (or reaches 1-D levels the library cannot index).
inline bool curved_request_exceeds(const GridSpec &sp, int depth, double max_points) {
    if (!(sp.family == F_GLOBAL || sp.family == F_SEQ || sp.family == F_FOURIER) || !is_curved(sp.type) || (int)sp.aw.size() != 2 * sp.dims) return false;
    bool neg = false; for (int j = 0; j < sp.dims; j++) if (sp.aw[(size_t)(sp.dims + j)] < 0) neg = true;
    if (!neg) return false;
    const int d = sp.dims, IMAX = 26; int xmin = sp.aw[0]; for (int j = 0; j < d; j++) xmin = std::min(xmin, sp.aw[(size_t)j]);
    if (xmin < 1) return false;   // (not a sound request; the library's argument checks deal with it)
    const bool level_type = sp.type == type_curved, qp = sp.type == type_qpcurved;
    auto npts = [&](int l) -> double { if (sp.family == F_SEQ) return l + 1.0; if (sp.family == F_FOURIER) return std::pow(3.0, l); if (sp.custom) return l + 1.0; return (double)OneDimensionalMeta::getNumPoints(l, sp.rule); };
    auto exact = [&](int l) -> double { if (level_type) return l; if (sp.family == F_FOURIER) return (std::pow(3.0, l) - 1.0) / 2.0; if (sp.family == F_SEQ) return l;
        if (sp.custom) return 2.0 * l + 1.0; return (double)(qp ? OneDimensionalMeta::getQExact(l, sp.rule) : OneDimensionalMeta::getIExact(l, sp.rule)); };
    const bool nested = sp.nested();
    std::vector<std::vector<double>> gmin((size_t)d), pts((size_t)d); std::vector<int> top((size_t)d);
    for (int j = 0; j < d; j++) { int lim = (!sp.limits.empty() && sp.limits[(size_t)j] >= 0) ? std::min(sp.limits[(size_t)j], IMAX) : IMAX; top[(size_t)j] = lim;
        std::vector<double> c((size_t)lim + 1);
        for (int i = 0; i <= lim; i++) { double e = i == 0 ? 0.0 : 1.0 + exact(i - 1); c[(size_t)i] = sp.aw[(size_t)j] * e + sp.aw[(size_t)(d + j)] * std::log1p(e); }
        for (int i = lim - 1; i >= 0; i--) c[(size_t)i] = std::min(c[(size_t)i], c[(size_t)i + 1]);
        gmin[(size_t)j] = c; pts[(size_t)j].resize((size_t)lim + 1);
        for (int i = 0; i <= lim; i++) pts[(size_t)j][(size_t)i] = nested ? (i == 0 ? npts(0) : npts(i) - npts(i - 1)) : npts(i); }
    const double bound = (double)depth * xmin + 1.0; double rest0 = 0; for (int j = 0; j < d; j++) rest0 += gmin[(size_t)j][0];
    // a direction without a limit that can reach IMAX is beyond the index range
    for (int j = 0; j < d; j++) if ((sp.limits.empty() || sp.limits[(size_t)j] < 0) && gmin[(size_t)j][(size_t)IMAX] + (rest0 - gmin[(size_t)j][0]) <= bound) return true;
    double total = 0; long visited = 0; bool over = false;
    std::function<void(int, double, double)> rec = [&](int j, double w, double prod) {
        if (over) return;
        if (j == d) { total += prod; if (total > max_points) over = true; return; }
        double rest = 0; for (int k = j + 1; k < d; k++) rest += gmin[(size_t)k][0];
        for (int i = 0; i <= top[(size_t)j] && !over; i++) { if (w + gmin[(size_t)j][(size_t)i] + rest > bound) break; if (++visited > 400000) { over = true; return; } rec(j + 1, w + gmin[(size_t)j][(size_t)i], prod * pts[(size_t)j][(size_t)i]); }
    };
    rec(0, 0.0, 1.0);
    return over;
}

inline void make_raw(TasmanianSparseGrid &g, const GridSpec &sp, int depth, int outs) {
    if (curved_request_exceeds(sp, depth, 150000.0)) throw std::runtime_error("harness: curved selection with negative log-weights beyond the size caps of the generators");
    switch (sp.family) {
    case F_GLOBAL:
        if (sp.custom) g.makeGlobalGrid(sp.dims, outs, depth, sp.type, make_custom_gl(12), sp.aw, sp.limits);
        else g.makeGlobalGrid(sp.dims, outs, depth, sp.type, sp.rule, sp.aw, sp.alpha, sp.beta, nullptr, sp.limits);
        break;
    case F_SEQ: g.makeSequenceGrid(sp.dims, outs, depth, sp.type, sp.rule, sp.aw, sp.limits); break;
    case F_LOCALP: g.makeLocalPolynomialGrid(sp.dims, outs, depth, sp.order, sp.rule, sp.limits); break;
    case F_WAVE: g.makeWaveletGrid(sp.dims, outs, depth, sp.order, sp.limits); break;
    case F_FOURIER: g.makeFourierGrid(sp.dims, outs, depth, sp.type, sp.aw, sp.limits); break;
    }
}
inline void apply_transforms(TasmanianSparseGrid &g, const GridSpec &sp) {
    if (!sp.ta.empty()) g.setDomainTransform(sp.ta, sp.tb);
    if (!sp.conformal.empty()) g.setConformalTransformASIN(sp.conformal);
}
// Makes the grid of the spec; the depth is lowered (and written back into sp) until the grid has <= cap points.
// A documented "table too short" runtime_error at a depth is treated like "too many points".
inline void make_grid(TasmanianSparseGrid &g, GridSpec &sp, int cap) {
    int good = -1;
    for (int d = 0; d <= sp.depth; d++) {
        try { TasmanianSparseGrid t; make_raw(t, sp, d, 0); if (t.getNumPoints() > cap) break; good = d; }
        catch (std::runtime_error &) { break; }
    }
    if (good < 0) throw Discard("depth 0 grid exceeds the cap or the table");
    sp.depth = good;
    make_raw(g, sp, sp.depth, sp.outs);
    apply_transforms(g, sp);
}

// ---------------------------------------------------------------------------------------------
// Value model: smooth bounded deterministic function of the coordinates (and of a salt that Reload bumps)
struct ValueModel {
    double w[4] = {0.7, -0.4, 0.3, 0.9}; double phase = 0.3; double q = 1.0;
    double bump = 0.0, centre[4] = {0, 0, 0, 0}, sharp = 30.0;   // optional local feature: drives adaptive refinement into one corner (deep, irregular hierarchies)
    void decode(Src &s) { static const std::vector<double> pal = {0.7, -0.4, 0.3, 0.9, 1.3, -1.1, 0.15, 2.0};
        for (auto &x : w) x = s.of(pal); phase = 0.1 * s.pick(16); q = 0.5 + 0.25 * s.pick(6);
        if (s.chance(1, 2)) { static const std::vector<double> cp = {0.3, -0.6, 0.0, 0.55, -0.25, 0.8, -0.9}; bump = 1.5 + 0.5 * s.pick(4); for (auto &c : centre) c = s.of(cp); sharp = 10.0 * (1 + s.pick(6)); } }
    // degenerate models (set by a property, never by decode): 1 constant per output, 2 affine with dyadic slopes, 3 a function of the first coordinate only.
    // Their hierarchical surpluses vanish EXACTLY at many points, which is what decides "coefficient 0 versus tolerance 0" in the refinement rules.
    int degenerate = 0;
    int k0 = 0;   // output offset: the model of a copy restricted to outputs [k0, ...) of its source
    double operator()(const double *x, int dims, int k, int salt) const {
        k += k0;
        if (degenerate == 1) return 1.0 + k + 0.5 * salt;
        if (degenerate == 2) { double v = 2.0 + k + 0.5 * salt; for (int j = 0; j < dims; j++) v += (0.5 - 0.25 * ((j + k) % 3)) * x[j]; return v; }
        if (degenerate == 3) dims = 1;
        double a = phase + 0.37 * salt + 0.9 * k, r2 = 0, b2 = 0;
        // outputs k >= 1 weight the directions differently and move the local feature (outputs must disagree on where to refine; k = 0 is unchanged)
        for (int j = 0; j < dims; j++) { double t = x[j] / (1.0 + 0.1 * std::fabs(x[j])); double c = (k % 2) ? -centre[j] : centre[j]; a += w[(j + k) % 4] * (1.0 + 0.75 * ((j + k) % 3 == 0 ? k : 0)) * t; r2 += t * t; b2 += (t - c) * (t - c); }
        return (1.0 + k) + 0.75 * std::sin(a) + 0.25 * std::cos(q * r2 / (1.0 + 0.2 * r2) + salt) + (bump != 0.0 ? bump * std::exp(-sharp * b2) : 0.0);
    }
    std::string text() const { std::ostringstream o; if (degenerate) o << "vm degenerate=" << (degenerate == 1 ? "constant" : degenerate == 2 ? "affine" : "first-coordinate-only") << " "; o << "vm w=" << w[0] << "," << w[1] << "," << w[2] << "," << w[3] << " ph=" << phase << " q=" << q;
        if (bump != 0.0) o << " bump=" << bump << "@" << centre[0] << "," << centre[1] << "," << centre[2] << "," << centre[3] << " sharp=" << sharp; return o.str(); }
};

using Coord = std::vector<double>;
inline Coord coord_of(const double *x, int dims) { Coord c(x, x + dims); for (auto &v : c) v += 0.0; return c; }   // -0.0 -> 0.0

// ---------------------------------------------------------------------------------------------
enum OpKind { OP_LOAD = 0, OP_REF_SURP, OP_REF_ANISO, OP_RELOAD, OP_UPDATE, OP_CLEAR_REF, OP_MERGE, OP_SET_COEFF, OP_BEGIN_CONSTR, OP_CANDIDATES,
              OP_LOAD_CONSTR, OP_FINISH_CONSTR, OP_SET_TRANSFORM, OP_CLEAR_TRANSFORM, OP_SET_CONFORMAL, OP_CLEAR_CONFORMAL, OP_CLEAR_LIMITS,
              OP_REMOVE_BY_COEFF, OP_ROUNDTRIP, OP_COPY, OP_NUM_KINDS };
inline const char *op_name(int k) { static const char *n[] = {"Load", "RefSurp", "RefAniso", "Reload", "Update", "ClearRef", "Merge", "SetCoeff", "BeginConstr", "Candidates",
    "LoadConstr", "FinishConstr", "SetTransform", "ClearTransform", "SetConformal", "ClearConformal", "ClearLimits", "RemoveByCoeff", "RoundTrip", "Copy"}; return n[k]; }

struct Op {
    int kind = OP_LOAD;
    TypeDepth type = type_level; TypeRefinement crit = refine_classic;
    int output = -1, min_growth = 1, depth = 0, variant = 0, count = 0;
    double tol = 0; bool use_scale = false; bool raw_overload = false;
    std::vector<int> limits, aw; std::vector<uint8_t> sel;
    std::vector<double> ta, tb; std::vector<int> conformal;
};
static const std::vector<double> TOLS = {1e-2, 1e-1, 1e-3, 0.0, 1e-5, 10.0, 0.3};

struct OpMask { uint32_t bits = 0; OpMask(std::initializer_list<int> k) { for (int x : k) bits |= 1u << x; } bool has(int k) const { return bits >> k & 1u; }
    std::vector<int> kinds() const { std::vector<int> v; for (int k = 0; k < OP_NUM_KINDS; k++) if (has(k)) v.push_back(k); return v; } };

inline Op decode_op(Src &s, const GridSpec &sp, const std::vector<int> &kinds) {
    Op op; op.kind = kinds[(size_t)s.pick((int)kinds.size())];
    auto maybe_limits = [&]() { if (s.chance(1, 3)) op.limits = decode_limits(s, sp.dims); };
    switch (op.kind) {
    case OP_REF_SURP:
        op.tol = s.of(TOLS); op.crit = s.of(REFINE_TYPES); op.output = s.pick(sp.outs + 1) - 1; maybe_limits();
        op.use_scale = s.chance(1, 4); op.raw_overload = s.chance(1, 2); op.variant = s.byte(); break;
    case OP_REF_ANISO:
        // estimated weights are scaled by 1000, which is meaningless as "tensor sizes": tensor types are not used for anisotropic refinement
        op.type = ALL_TYPES[(size_t)s.pick(9)]; op.min_growth = 1 + s.pick(12); op.output = s.pick(sp.outs + 1) - 1; maybe_limits(); break;
    case OP_UPDATE:
        op.depth = s.range(0, max_depth_for(sp.family, sp.dims)); op.type = s.of(ALL_TYPES);
        if (s.chance(1, 3)) op.aw = decode_aw(s, sp.dims, op.type); maybe_limits();
        if (is_tensor_type(op.type) && !op.aw.empty()) op.depth = (op.depth + 1) / 2; break;
    case OP_SET_COEFF: op.variant = s.byte(); break;
    case OP_CANDIDATES:
        op.variant = s.pick(2); op.type = ALL_TYPES[(size_t)s.pick(9)]; op.output = s.pick(sp.outs + 1) - 1; op.tol = s.of(TOLS); op.crit = s.of(REFINE_TYPES);
        op.aw = decode_aw(s, sp.dims, op.type); maybe_limits(); break;
    case OP_LOAD_CONSTR: op.count = s.pick(12); op.variant = s.pick(3); { int n = s.pick(8); for (int i = 0; i < n; i++) op.sel.push_back(s.byte()); } break;
    case OP_SET_TRANSFORM:
        for (int j = 0; j < sp.dims; j++) { auto ab = (sp.family == F_GLOBAL && rule_unbounded(sp.rule)) ? s.of(UNBOUNDED_AB) : s.of(BOUNDED_AB); op.ta.push_back(ab.first); op.tb.push_back(ab.second); } break;
    case OP_SET_CONFORMAL: for (int j = 0; j < sp.dims; j++) op.conformal.push_back(s.range(0, 6)); break;
    case OP_REMOVE_BY_COEFF: op.tol = s.of(TOLS); op.output = s.pick(sp.outs + 1) - 1; op.variant = s.pick(2); op.count = 1 + s.pick(20); break;
    case OP_ROUNDTRIP: op.variant = s.pick(4); break;
    case OP_COPY: op.variant = s.pick(3); break;
    default: break;
    }
    return op;
}

// ---------------------------------------------------------------------------------------------
struct GridState {
    TasmanianSparseGrid g;
    GridSpec spec; ValueModel vm; int salt = 0; int cap = 400;
    std::map<Coord, std::vector<double>> dict;   // reference model: coordinates of loaded points -> supplied values
    bool dict_valid = true;                       // false after SetCoeff/Merge-without-reload style overwrites not tracked by coordinates
    bool constructing = false, removed = false;
    std::vector<double> candidates;               // last candidate list (transformed coordinates)
    std::vector<double> target;                   // points of a deeper reference grid of the same spec: arbitrary-order deliveries during construction
    std::set<size_t> target_done;
    std::vector<std::string> trace;               // executed ops (normalised text)
    Ctx *ctx = nullptr;                           // when set, executed ops are logged into the case text as they run
    int n_refine = 0, n_load = 0, n_constr_loads = 0, n_exec = 0;
    bool conformal_set() const { return g.isSetConformalTransformASIN(); }

    std::vector<double> values_for(const std::vector<double> &pts) const {
        int d = spec.dims, o = spec.outs; size_t n = pts.size() / (size_t)d; std::vector<double> v(n * (size_t)o);
        for (size_t i = 0; i < n; i++) for (int k = 0; k < o; k++) v[i * (size_t)o + (size_t)k] = vm(&pts[i * (size_t)d], d, k, salt);
        return v;
    }
    void record(const std::vector<double> &pts, const std::vector<double> &vals) {
        int d = spec.dims, o = spec.outs; size_t n = pts.size() / (size_t)d;
        for (size_t i = 0; i < n; i++) dict[coord_of(&pts[i * (size_t)d], d)] = std::vector<double>(vals.begin() + (long)(i * (size_t)o), vals.begin() + (long)((i + 1) * (size_t)o));
    }
    // re-key the dictionary after a change of transform (point order is unaffected by transforms)
    void rekey(const std::vector<double> &old_pts) {
        if (dict.empty()) return;
        std::vector<double> np = g.getLoadedPoints(); int d = spec.dims; size_t n = np.size() / (size_t)d;
        std::map<Coord, std::vector<double>> nd;
        for (size_t i = 0; i < n; i++) { auto it = dict.find(coord_of(&old_pts[i * (size_t)d], d)); if (it != dict.end()) nd[coord_of(&np[i * (size_t)d], d)] = it->second; }
        dict.swap(nd);
    }
    bool canon11() const { return spec.family != F_FOURIER && !(spec.family == F_GLOBAL && rule_unbounded(spec.rule)); }
    bool aniso_capable() const { return spec.family == F_SEQ || spec.family == F_FOURIER || (spec.family == F_GLOBAL && spec.nested()); }
    bool surplus_capable() const { return spec.family == F_SEQ || spec.family == F_LOCALP || spec.family == F_WAVE || (spec.family == F_GLOBAL && !spec.custom && OneDimensionalMeta::isSequence(spec.rule)); }
    // points of a deeper grid of the same spec that respect the limits currently in force: pool for arbitrary-order deliveries
    void rebuild_target() {
        target.clear(); target_done.clear(); GridSpec r = spec; r.limits = g.getLevelLimits();
        try { TasmanianSparseGrid ref; make_raw(ref, r, spec.depth + 1, 0); if (ref.getNumPoints() > 2 * cap) make_raw(ref, r, spec.depth, 0);
              if (ref.getNumPoints() <= 2 * cap) { apply_transforms(ref, spec); target = ref.getPoints(); } } catch (std::runtime_error &) {}
    }
    void note(const std::string &t) { trace.push_back(t); n_exec++; if (ctx) ctx->log(t); }
    // after a refinement/update produced too many needed points the history drops them (a legal ClearRefinement)
    void enforce_cap() {
        if (g.getNumNeeded() + g.getNumLoaded() > 4 * cap) { g.clearRefinement(); note("ClearRef(cap)"); return; }
        // Global grids: fewer than 1000 nodes per direction (beyond that the Lagrange coefficients overflow: decided by the class "global:deep-1d" of C01, see known_findings.json)
        if (spec.family == F_GLOBAL && g.getNumNeeded() >= 500) { auto p = g.getNeededPoints(); size_t n = p.size() / (size_t)spec.dims;
            for (int j = 0; j < spec.dims; j++) { std::set<double> u; for (size_t i = 0; i < n; i++) u.insert(p[i * (size_t)spec.dims + (size_t)j]); if (u.size() >= 500) { g.clearRefinement(); note("ClearRef(1-D capacity)"); return; } } }
    }
};

// Upper bound of the 1-D exactness index a curved selection with the given weights can reach in an unlimited direction for offsets up to 12 (see OP_REF_ANISO).
inline bool curved_request_within_capacity(const GridSpec &sp, TypeDepth type, const std::vector<int> &w, const std::vector<int> &limits) {
    const int d = sp.dims; if ((int)w.size() != 2 * d) return true;
    const bool level_type = type == type_curved;
    const bool seqlike = sp.family == F_SEQ || (sp.family == F_GLOBAL && !sp.custom && OneDimensionalMeta::isSequence(sp.rule));
    const int T = level_type ? (seqlike ? 40 : sp.family == F_FOURIER ? 5 : 9) : (seqlike ? 40 : sp.family == F_FOURIER ? 250 : 1100);
    const int EMAX = 6000, LMAX = 12; int xmin = w[0]; for (int j = 0; j < d; j++) xmin = std::min(xmin, w[(size_t)j]);
    if (xmin < 1) return false;
    auto f = [&](int k, int e) { return (double)w[(size_t)k] * e + (double)w[(size_t)(d + k)] * std::log1p((double)e); };
    std::vector<double> m((size_t)d, 0.0);
    for (int k = 0; k < d; k++) { int emax = EMAX; if (!limits.empty() && limits[(size_t)k] >= 0) emax = level_type ? limits[(size_t)k] : std::min(EMAX, (2 << std::min(limits[(size_t)k], 11)));
        for (int e = 0; e <= emax; e++) m[(size_t)k] = std::min(m[(size_t)k], f(k, e)); }
    for (int j = 0; j < d; j++) { if (!limits.empty() && limits[(size_t)j] >= 0) continue;
        double slack = (double)xmin * LMAX; for (int k = 0; k < d; k++) if (k != j) slack -= m[(size_t)k];
        for (int e = EMAX; e > T; e--) if (f(j, e) <= slack) return false; }
    return true;
}

inline std::string lim_text(const std::vector<int> &l) { return l.empty() ? std::string("") : " limits=[" + join(l) + "]"; }

// Executes one op if it is legal in the current state (legality = the documented preconditions); returns whether it ran.
inline bool apply_op_impl(GridState &st, const Op &op);
// Rules with a finite table (gauss-patterson: 9 hard-coded levels; custom-tabulated): any operation that needs a level beyond the table is rejected by the library with the
// documented runtime_error ("... rule needed with level(s) N, but only M are hardcoded / provided"). Refinement, update, candidate requests and deliveries can all run into it;
// the case ends there (Discard), whatever the operation.
inline bool apply_op(GridState &st, const Op &op) {
    if (!(st.spec.family == F_GLOBAL && (st.spec.rule == rule_gausspatterson || st.spec.custom))) return apply_op_impl(st, op);
    try { return apply_op_impl(st, op); }
    catch (std::runtime_error &e) { std::string m = e.what(); if (m.find("rule needed with level") != std::string::npos && m.find(", but only ") != std::string::npos) throw Discard("beyond the rule table: " + m); throw; }
}
inline bool apply_op_impl(GridState &st, const Op &op) {
    auto &g = st.g; const int outs = st.spec.outs, dims = st.spec.dims;
    if (g.empty()) return false;
    if (st.removed && !(op.kind == OP_ROUNDTRIP || op.kind == OP_COPY)) return false;   // documented: only evaluation / I-O after removal
    std::ostringstream t;
    if (cfg().echo) { printf("  .. trying %s type=%s crit=%s out=%d growth=%d depth=%d variant=%d count=%d tol=%g limits=[%s] aw=[%s]\n", op_name(op.kind), type_name(op.type), refine_name(op.crit),
        op.output, op.min_growth, op.depth, op.variant, op.count, op.tol, join(op.limits).c_str(), join(op.aw).c_str()); fflush(stdout); }
    switch (op.kind) {
    case OP_LOAD: {
        if (st.constructing || outs == 0 || g.getNumNeeded() == 0) return false;
        auto pts = g.getNeededPoints(); auto vals = st.values_for(pts);
        bool first = g.getNumLoaded() == 0;
        if (op.variant % 2) g.loadNeededValues(vals.data()); else g.loadNeededValues(vals);
        st.record(pts, vals); st.n_load++; (void)first;
        t << "Load(" << pts.size() / (size_t)dims << ")"; break; }
    case OP_RELOAD: {
        if (st.constructing || outs == 0 || g.getNumNeeded() != 0 || g.getNumLoaded() == 0) return false;
        st.salt++; auto pts = g.getLoadedPoints(); auto vals = st.values_for(pts);
        g.loadNeededValues(vals); st.dict.clear(); st.record(pts, vals); st.dict_valid = true; st.n_load++;
        t << "Reload(salt=" << st.salt << ")"; break; }
    case OP_REF_SURP: {
        if (st.constructing || outs == 0 || g.getNumLoaded() == 0 || !st.surplus_capable()) return false;
        int out = std::min(op.output, outs - 1); if (st.spec.family == F_GLOBAL) out = std::max(out, 0);   // documented: Global grids require a specific output
        if (st.spec.family == F_LOCALP || st.spec.family == F_WAVE) {
            std::vector<double> scale;
            if (op.use_scale && st.spec.family == F_LOCALP) {
                size_t n = (size_t)g.getNumLoaded() * (size_t)(out == -1 ? outs : 1); scale.resize(n);
                for (size_t i = 0; i < n; i++) scale[i] = 0.25 * (1 + (int)((i * 7 + op.variant) % 8));
            }
            double tol = op.tol;
            if (op.variant & 1) {   // selective tolerance: a quantile of the actual normalised coefficients, so that only part of the grid is refined
                int n = g.getNumLoaded(); const double *cf = g.getHierarchicalCoefficients(), *vl = g.getLoadedValues(); std::vector<double> cr((size_t)n, 0.0), nm((size_t)outs, 0.0);
                for (int i = 0; i < n; i++) for (int k = 0; k < outs; k++) nm[(size_t)k] = std::max(nm[(size_t)k], std::fabs(vl[(size_t)i * (size_t)outs + (size_t)k]));
                for (int i = 0; i < n; i++) for (int k = 0; k < outs; k++) if ((out == -1 || out == k) && nm[(size_t)k] > 0) cr[(size_t)i] = std::max(cr[(size_t)i], std::fabs(cf[(size_t)i * (size_t)outs + (size_t)k]) / nm[(size_t)k]);
                std::sort(cr.begin(), cr.end()); static const double qs[] = {0.5, 0.7, 0.85, 0.95}; double v = cr[(size_t)((double)(n - 1) * qs[(op.variant >> 1) & 3])];
                if (std::isfinite(v) && v > 0) tol = v;
            }
            Op &mop = const_cast<Op &>(op); mop.tol = tol;
            if (op.raw_overload || !scale.empty()) g.setSurplusRefinement(op.tol, op.crit, out, op.limits.empty() ? nullptr : op.limits.data(), scale.empty() ? nullptr : scale.data());
            else g.setSurplusRefinement(op.tol, op.crit, out, op.limits);
            t << "RefSurp(tol=" << op.tol << "," << refine_name(op.crit) << ",out=" << out << lim_text(op.limits) << (scale.empty() ? "" : " scale") << ")";
        } else {
            if (op.raw_overload) g.setSurplusRefinement(op.tol, out, op.limits.empty() ? nullptr : op.limits.data()); else g.setSurplusRefinement(op.tol, out, op.limits);
            t << "RefSurp(tol=" << op.tol << ",out=" << out << lim_text(op.limits) << ")";
        }
        st.n_refine++; break; }
    case OP_REF_ANISO: {
        if (st.constructing || outs == 0 || g.getNumLoaded() == 0 || !st.aniso_capable()) return false;
        if (!st.dict_valid) return false;   // anisotropy estimated from arbitrary (non-decaying) coefficients requests astronomically large grids
        int out = std::min(op.output, outs - 1); if (st.spec.family == F_GLOBAL) out = std::max(out, 0);
        { // hyperbolic contours with (partly) saturated level limits need up to (k+1)^(w_max/w_min) passes of the level loop, each O(level):
          // it terminates but not within any test budget, so the shape is not generated (see DESIGN, "performance pathologies")
          bool hyper = op.type == type_hyperbolic || op.type == type_iphyperbolic || op.type == type_qphyperbolic;
          std::vector<int> cur = op.limits.empty() ? g.getLevelLimits() : op.limits; bool limited = false; for (int l : cur) if (l >= 0) limited = true;
          if (hyper && limited) return false;
          // curved contours: the weights estimated from the data can select 1-D levels in the hundreds (negative log-weights in some directions pay for a direction with a tiny
          // linear weight): grids beyond the int index range (2^31 points in one direction) or sequences of hundreds of optimised nodes. Like depth 40 at make time this is a resource
          // request outside the input domain ("no hard restriction on depth; however, the number of points ..."), so the reach of the request is bounded first with the documented
          // selection formula (sum_j xi_j e_j + eta_j log(e_j+1) <= L min_j xi_j) and requests beyond the caps used everywhere else in the generators are not issued.
          if (is_curved(op.type)) { auto w = g.estimateAnisotropicCoefficients(op.type, out); if (cfg().echo) { printf("  .. estimated weights [%s]\n", join(w).c_str()); fflush(stdout); }
              if (!curved_request_within_capacity(st.spec, op.type, w, cur)) { if (st.ctx) st.ctx->count("skipped:curved-refinement-beyond-capacity"); return false; } } }
        try { g.setAnisotropicRefinement(op.type, op.min_growth, out, op.limits); }
        catch (std::runtime_error &e) {   // rules with a finite table (gauss-patterson, custom-tabulated): a refinement that needs a level beyond the table is rejected with the documented runtime_error; the case ends here
            if (st.spec.family == F_GLOBAL && (st.spec.rule == rule_gausspatterson || st.spec.custom)) throw Discard(std::string("refinement beyond the rule table: ") + e.what());
            throw; }
        t << "RefAniso(" << type_name(op.type) << ",growth=" << op.min_growth << ",out=" << out << lim_text(op.limits) << ")"; st.n_refine++; break; }
    case OP_UPDATE: {
        if (st.constructing || !(st.spec.family == F_GLOBAL || st.spec.family == F_SEQ || st.spec.family == F_FOURIER)) return false;
        { GridSpec probe = st.spec; probe.type = op.type; probe.aw = op.aw; probe.limits = op.limits.empty() ? g.getLevelLimits() : op.limits; probe.outs = 0;
          try { TasmanianSparseGrid tmp; make_raw(tmp, probe, op.depth, 0); if (tmp.getNumPoints() > 2 * st.cap) return false; } catch (std::runtime_error &) { return false; } }
        g.updateGrid(op.depth, op.type, op.aw, op.limits);
        t << "Update(depth=" << op.depth << "," << type_name(op.type) << (op.aw.empty() ? "" : " aw=[" + join(op.aw) + "]") << lim_text(op.limits) << ")"; st.n_refine++; break; }
    case OP_CLEAR_REF: { if (st.constructing || g.getNumLoaded() == 0) return false; g.clearRefinement(); t << "ClearRef"; break; }
    case OP_MERGE: {
        if (st.constructing || outs == 0 || g.getNumLoaded() == 0 || g.getNumNeeded() == 0) return false;
        g.mergeRefinement(); st.dict.clear();
        { auto pts = g.getLoadedPoints(); std::vector<double> z(pts.size() / (size_t)dims * (size_t)outs, 0.0); st.record(pts, z); }
        t << "Merge"; break; }
    case OP_SET_COEFF: {
        if (st.constructing || outs == 0 || g.getNumPoints() == 0) return false;
        size_t n = (size_t)g.getNumPoints() * (size_t)outs * (st.spec.family == F_FOURIER ? 2u : 1u); std::vector<double> c(n);
        for (size_t i = 0; i < n; i++) c[i] = 0.125 * (double)((int)((i * 5 + op.variant * 3) % 17) - 8);
        g.setHierarchicalCoefficients(c); st.dict.clear(); st.dict_valid = false;
        t << "SetCoeff(v=" << op.variant << ")"; break; }
    case OP_BEGIN_CONSTR: { if (st.constructing || outs == 0 || !st.spec.nested() || st.conformal_set()) return false; /* conformal + construction: outside every listed property, see DESIGN */ g.beginConstruction(); st.constructing = true; st.candidates.clear();
        st.rebuild_target();
        t << "BeginConstr"; break; }
    case OP_CANDIDATES: {
        if (!st.constructing) return false;
        int out = std::min(op.output, outs - 1); if (st.spec.family == F_GLOBAL) out = std::max(out, 0);
        if (st.spec.family == F_LOCALP || st.spec.family == F_WAVE) {
            st.candidates = g.getCandidateConstructionPoints(op.tol, op.crit, out, op.limits);
            t << "Candidates(tol=" << op.tol << "," << refine_name(op.crit) << ",out=" << out << lim_text(op.limits) << ")";
        } else if (op.variant == 0 || !st.aniso_capable() || g.getNumLoaded() == 0 || !st.dict_valid) {
            st.candidates = g.getCandidateConstructionPoints(op.type, op.aw, op.limits);
            t << "Candidates(" << type_name(op.type) << ",aw=[" << join(op.aw) << "]" << lim_text(op.limits) << ")";
        } else {
            st.candidates = g.getCandidateConstructionPoints(op.type, out, op.limits);
            t << "Candidates(" << type_name(op.type) << ",out=" << out << lim_text(op.limits) << ")";
        }
        if ((int)(st.candidates.size() / (size_t)dims) > 4 * st.cap) st.candidates.resize((size_t)(4 * st.cap) * (size_t)dims);
        if (!op.limits.empty()) st.rebuild_target();   // deliveries must respect the limits now in force
        t << "->" << st.candidates.size() / (size_t)dims; break; }
    case OP_LOAD_CONSTR: {
        if (!st.constructing) return false;
        std::vector<double> x, y; std::vector<size_t> idx; bool from_target = false;
        size_t nc = st.candidates.size() / (size_t)dims;
        if (op.variant == 2 && !st.target.empty()) {   // arbitrary order: any points of the deeper reference grid, possibly before their parents
            from_target = true; size_t nt = st.target.size() / (size_t)dims;
            std::set<Coord> have;   // never re-deliver a point the grid already holds (callers deliver new samples only)
            if (g.getNumLoaded()) { auto lp = g.getLoadedPoints(); for (size_t i = 0; i < lp.size() / (size_t)dims; i++) have.insert(coord_of(&lp[i * (size_t)dims], dims)); }
            std::vector<uint8_t> sel = op.sel; if (sel.empty()) sel.push_back((uint8_t)op.count);
            for (size_t q = 0; q < sel.size(); q++) { size_t k = ((size_t)sel[q] * 7 + q * 13 + (size_t)op.count * 31) % nt; size_t tries = 0;
                while (tries < nt && (st.target_done.count(k) || have.count(coord_of(&st.target[k * (size_t)dims], dims)) || st.dict.count(coord_of(&st.target[k * (size_t)dims], dims)))) { k = (k + 1) % nt; tries++; }   // (also never a sample delivered earlier and still parked)
                if (tries == nt) break; st.target_done.insert(k); idx.push_back(k); }
            if (idx.empty()) return false;
            for (size_t k : idx) x.insert(x.end(), st.target.begin() + (long)(k * (size_t)dims), st.target.begin() + (long)((k + 1) * (size_t)dims));
        } else {
            if (nc == 0) return false;
            size_t want = std::min(nc, (size_t)(1 + op.count));
            if (op.variant == 0) for (size_t i = 0; i < want; i++) idx.push_back(i);                        // prefix, in order
            else if (op.variant == 1) for (size_t i = 0; i < want; i++) idx.push_back(want - 1 - i);       // prefix, reversed
            else { std::set<size_t> seen; for (uint8_t b : op.sel) { size_t k = b % nc; if (seen.insert(k).second) idx.push_back(k); } if (idx.empty()) idx.push_back(nc - 1); }
            for (size_t k : idx) x.insert(x.end(), st.candidates.begin() + (long)(k * (size_t)dims), st.candidates.begin() + (long)((k + 1) * (size_t)dims));
        }
        y = st.values_for(x);
        bool singles = (op.count % 2) == 1;
        if (singles) for (size_t q = 0; q < idx.size(); q++) g.loadConstructedPoints(&x[q * (size_t)dims], 1, &y[q * (size_t)outs]);
        else g.loadConstructedPoints(x, y);
        st.record(x, y); st.n_constr_loads++;
        if (!from_target) {   // delivered candidates are no longer candidates
            std::vector<double> rest; std::set<size_t> gone(idx.begin(), idx.end());
            for (size_t k = 0; k < nc; k++) if (!gone.count(k)) rest.insert(rest.end(), st.candidates.begin() + (long)(k * (size_t)dims), st.candidates.begin() + (long)((k + 1) * (size_t)dims));
            st.candidates.swap(rest);
        } else st.candidates.clear();
        t << "LoadConstr(" << idx.size() << " pts " << (from_target ? "target" : "cand") << " v" << op.variant << (singles ? " singles" : " batch") << ")"; break; }
    case OP_FINISH_CONSTR: { if (!st.constructing) return false; g.finishConstruction(); st.constructing = false; st.candidates.clear(); t << "FinishConstr"; break; }
    case OP_SET_TRANSFORM: {
        if (st.constructing) return false;   // the delivery pool and the parked samples are kept in transformed coordinates: no change of variables while a construction is active
        auto old = g.getNumLoaded() ? g.getLoadedPoints() : std::vector<double>();
        g.setDomainTransform(op.ta, op.tb); st.spec.ta = op.ta; st.spec.tb = op.tb; st.rekey(old); st.candidates.clear();
        t << "SetTransform(a=[" << joind(op.ta) << "] b=[" << joind(op.tb) << "])"; break; }
    case OP_CLEAR_TRANSFORM: {
        if (!g.isSetDomainTransfrom() || st.constructing) return false;
        auto old = g.getNumLoaded() ? g.getLoadedPoints() : std::vector<double>();
        g.clearDomainTransform(); st.spec.ta.clear(); st.spec.tb.clear(); st.rekey(old); st.candidates.clear(); t << "ClearTransform"; break; }
    case OP_SET_CONFORMAL: {
        if (!st.canon11() || st.constructing) return false;
        auto old = g.getNumLoaded() ? g.getLoadedPoints() : std::vector<double>();
        g.setConformalTransformASIN(op.conformal); st.spec.conformal = op.conformal; st.rekey(old); st.candidates.clear();
        t << "SetConformal([" << join(op.conformal) << "])"; break; }
    case OP_CLEAR_CONFORMAL: {
        if (!g.isSetConformalTransformASIN() || st.constructing) return false;
        auto old = g.getNumLoaded() ? g.getLoadedPoints() : std::vector<double>();
        g.clearConformalTransform(); st.spec.conformal.clear(); st.rekey(old); st.candidates.clear(); t << "ClearConformal"; break; }
    case OP_CLEAR_LIMITS: { g.clearLevelLimits(); t << "ClearLimits"; break; }
    case OP_REMOVE_BY_COEFF: {
        if (st.constructing || st.spec.family != F_LOCALP || outs == 0 || g.getNumLoaded() == 0 || g.getNumNeeded() != 0) return false;
        int out = std::min(op.output, outs - 1);
        if (op.variant == 0) { g.removePointsByHierarchicalCoefficient(op.tol, out); t << "RemoveByCoeff(tol=" << op.tol << ",out=" << out << ")"; }
        else { int k = std::min(op.count, g.getNumLoaded()); g.removePointsByHierarchicalCoefficient(k, out); t << "RemoveByCoeff(keep=" << k << ",out=" << out << ")"; }
        st.removed = true;
        if (!g.empty()) { std::map<Coord, std::vector<double>> nd; auto pts = g.getLoadedPoints(); for (size_t i = 0; i < pts.size() / (size_t)dims; i++) { auto c = coord_of(&pts[i * (size_t)dims], dims); auto it = st.dict.find(c); if (it != st.dict.end()) nd[c] = it->second; } st.dict.swap(nd); }
        else st.dict.clear();
        break; }
    case OP_ROUNDTRIP: {
        bool binary = op.variant & 1; std::stringstream ss; g.write(ss, binary); TasmanianSparseGrid h; h.read(ss, binary); g = std::move(h);
        t << "RoundTrip(" << (binary ? "bin" : "ascii") << ")"; break; }
    case OP_COPY: {
        TasmanianSparseGrid h; if (op.variant == 0) h = g; else h.copyGrid(g); g = std::move(h); t << "Copy(v" << op.variant << ")"; break; }
    default: return false;
    }
    st.note(t.str());
    if (op.kind == OP_REF_SURP || op.kind == OP_REF_ANISO || op.kind == OP_UPDATE) st.enforce_cap();
    return true;
}

// Evaluation points inside the (transformed) domain: palette of interior points, nodes, boundaries
inline std::vector<double> domain_point(Src &s, const GridState &st) {
    static const std::vector<double> pal = {0.0, 0.3, -0.45, 0.77, -0.9, 0.5, -0.125, 1.0, -1.0, 0.0625, 0.99, -0.6};
    int d = st.spec.dims; std::vector<double> x((size_t)d);
    bool unb = st.spec.family == F_GLOBAL && rule_unbounded(st.spec.rule);
    for (int j = 0; j < d; j++) {
        double c = s.of(pal);                       // canonical [-1,1]
        if (st.spec.family == F_FOURIER) c = 0.5 * (c + 1.0);   // [0,1]
        if (unb) { c = rule_laguerre(st.spec.rule) ? 1.5 * (c + 1.0) : 2.0 * c; }   // [0,3] or [-2,2]
        double a, b;
        if (!st.spec.ta.empty()) {
            a = st.spec.ta[(size_t)j]; b = st.spec.tb[(size_t)j];
            if (st.spec.family == F_FOURIER) c = a + (b - a) * c;
            else if (unb) c = rule_laguerre(st.spec.rule) ? c / b + a : c / std::sqrt(b) + a;
            else c = 0.5 * ((b - a) * c + (b + a));
        }
        x[(size_t)j] = c;
    }
    return x;
}

} // namespace vf
