// C13 runner: executes one case (byte string from a file) on LARGER grids and prints a transcript; built twice (serial and -fopenmp).
// The driver check (props/c13.cpp) runs the serial binary once and the OpenMP binary under several OMP_NUM_THREADS and compares transcripts:
// integer / ordering data must be identical, floating point data equal to rounding.
#include "history.hpp"
#include "observe.hpp"
#include <iostream>
using namespace vf;

static void line_ints(const char *key, const int *p, size_t n) { uint64_t h = 1469598103934665603ull; for (size_t i = 0; i < n; i++) { h ^= (uint64_t)(uint32_t)p[i]; h *= 1099511628211ull; } printf("I %s n=%zu hash=%016llx\n", key, n, (unsigned long long)h); }
static void line_exact(const char *key, const std::vector<double> &v) { uint64_t h = 1469598103934665603ull; for (double x : v) { uint64_t b; double y = x + 0.0; std::memcpy(&b, &y, 8); h ^= b; h *= 1099511628211ull; } printf("I %s n=%zu hash=%016llx\n", key, v.size(), (unsigned long long)h); }
static void line_float(const char *key, const double *p, size_t n) { printf("F %s n=%zu", key, n); size_t step = n > 400 ? n / 400 : 1; double s1 = 0, s2 = 0; for (size_t i = 0; i < n; i++) { s1 += p[i]; s2 += std::fabs(p[i]); } printf(" sum=%a abs=%a :", s1, s2); for (size_t i = 0; i < n; i += step) printf(" %a", p[i]); printf("\n"); }

static void transcript(GridState &st, const char *when) {
    auto &g = st.g; int d = g.getNumDimensions(), outs = g.getNumOutputs();
    printf("S after %s loaded=%d needed=%d constructing=%d\n", when, g.getNumLoaded(), g.getNumNeeded(), (int)g.isUsingConstruction());
    if (g.getNumLoaded()) line_exact("loaded_points", g.getLoadedPoints());
    if (g.getNumNeeded()) line_exact("needed_points", g.getNeededPoints());
    if (g.getNumPoints()) line_ints("point_indexes", g.getPointsIndexes(), (size_t)g.getNumPoints() * (size_t)d);
    if (g.getNumLoaded() && outs) {
        line_float("coefficients", g.getHierarchicalCoefficients(), (size_t)g.getNumLoaded() * (size_t)outs * (g.isFourier() ? 2u : 1u));
        auto px = probe_points(g, 40); std::vector<double> y; g.evaluateBatch(px, y); line_float("evaluateBatch", y.data(), y.size());
        std::vector<double> q; g.integrate(q); line_float("integrate", q.data(), q.size());
        if (g.isLocalPolynomial() || g.isWavelet()) { std::vector<int> pn, ix; std::vector<double> vl; g.evaluateSparseHierarchicalFunctions(px, pn, ix, vl); line_ints("sparse_pntr", pn.data(), pn.size()); line_ints("sparse_indx", ix.data(), ix.size()); line_float("sparse_vals", vl.data(), vl.size()); }
        else { std::vector<double> H; g.evaluateHierarchicalFunctions(std::vector<double>(px.begin(), px.begin() + 4 * d), H); line_float("hierarchical", H.data(), H.size()); }
    }
    if (g.getNumPoints()) { auto w = g.getQuadratureWeights(); line_float("quadrature", w.data(), w.size()); }
    if (!st.candidates.empty()) line_exact("candidates", st.candidates);
}

int main(int argc, char **argv) {
    if (argc < 2) return 2;
    std::ifstream f(argv[1], std::ios::binary); std::vector<uint8_t> bytes((std::istreambuf_iterator<char>(f)), std::istreambuf_iterator<char>());
    Src s(bytes);
    try {
        SpecOpts so; so.min_outs = 1; so.max_outs = 2; so.cap = 3000; so.custom = false; so.conformal = true; so.min_depth = 2;   // (conformal maps included: integrate() and the weights take a separate, separately parallelised branch)
        GridState st; st.cap = so.cap; st.spec = decode_spec(s, so); st.vm.decode(s);
        st.spec.depth = (st.spec.family == F_FOURIER) ? 7 : 14;   // as deep as the cap allows (make_grid lowers it): larger grids than in the other checks: parallel loops must actually split
        make_grid(st.g, st.spec, so.cap);
        printf("SPEC %s points=%d openmp=%d\n", st.spec.text().c_str(), st.g.getNumPoints(), (int)TasmanianSparseGrid::isOpenMPEnabled());
        static const std::vector<int> kinds = {OP_LOAD, OP_REF_SURP, OP_REF_SURP, OP_REF_ANISO, OP_UPDATE, OP_BEGIN_CONSTR, OP_CANDIDATES, OP_LOAD_CONSTR, OP_FINISH_CONSTR, OP_MERGE, OP_SET_COEFF};
        int nops = 2 + s.pick(5);
        for (int i = 0; i < nops; i++) {
            Op op; if (i == 0) op.kind = OP_LOAD; else op = decode_op(s, st.spec, kinds);
            if ((op.kind == OP_REF_ANISO || op.kind == OP_UPDATE) && (st.spec.family == F_LOCALP || st.spec.family == F_WAVE)) op.kind = OP_REF_SURP;
            if (op.kind == OP_REF_SURP) {
                op.variant &= ~1;   // never a tolerance EQUAL to a coefficient (the rounding of a reduction could legitimately flip the decision) ...
                // ... but a selective one placed in the middle of a gap (relative width > 1e-4) of the sorted normalised coefficients, so that adaptive
                // hierarchies with gaps are produced; the choice is made on this build's coefficients and is identical across builds unless they already differ
                auto &g = st.g; int n = g.getNumLoaded(), outs = g.getNumOutputs();
                if (n > 4 && outs > 0 && (s.byte() % 3) != 0) { const double *cf = g.getHierarchicalCoefficients(), *vl = g.getLoadedValues(); std::vector<double> nm((size_t)outs, 0.0), cr((size_t)n, 0.0);
                    for (int q = 0; q < n; q++) for (int k = 0; k < outs; k++) nm[(size_t)k] = std::max(nm[(size_t)k], std::fabs(vl[(size_t)q * (size_t)outs + (size_t)k]));
                    for (int q = 0; q < n; q++) for (int k = 0; k < outs; k++) if (nm[(size_t)k] > 0) cr[(size_t)q] = std::max(cr[(size_t)q], std::fabs(cf[(size_t)q * (size_t)outs + (size_t)k]) / nm[(size_t)k]);
                    std::sort(cr.begin(), cr.end()); size_t from = (size_t)((double)(n - 1) * (0.5 + 0.1 * (double)(s.byte() % 5)));
                    for (size_t q = from; q + 1 < (size_t)n; q++) if (cr[q] > 0 && cr[q + 1] > cr[q] * (1.0 + 1e-4)) { op.tol = std::sqrt(cr[q] * cr[q + 1]); op.output = -1; break; } }
                // level limits make the OpenMP-only candidate collection take its limited branch
                if (op.limits.empty() && (s.byte() % 2)) { op.limits = decode_limits(s, st.spec.dims); bool any = false; for (int l : op.limits) if (l >= 0) any = true; if (!any) op.limits[0] = 1 + (int)(s.byte() % 3); }
            }
            bool local_fam = st.spec.family == F_LOCALP || st.spec.family == F_WAVE;
            if (op.kind == OP_REF_SURP && local_fam && (s.byte() % 2)) op.crit = refine_classic;   // the criterion that leaves gaps in the hierarchy
            if (!apply_op(st, op)) continue;
            transcript(st, st.trace.back().c_str());
            if ((op.kind == OP_REF_SURP || op.kind == OP_REF_ANISO || op.kind == OP_UPDATE) && st.g.getNumNeeded() > 0 && st.g.getNumLoaded() + st.g.getNumNeeded() < 2 * so.cap) { Op ld; ld.kind = OP_LOAD; if (apply_op(st, ld)) transcript(st, "Load");
                // further adaptive rounds with the same settings (local families): incomplete hierarchies appear from the second round on
                int more = (op.kind == OP_REF_SURP && local_fam) ? (int)(s.byte() % 3) : 0;
                for (int r = 0; r < more && st.g.getNumLoaded() < 2 * so.cap; r++) { Op again = op; again.limits.clear(); if (!apply_op(st, again) || st.g.getNumNeeded() == 0) break; transcript(st, "RefSurp(again)"); if (apply_op(st, ld)) transcript(st, "Load"); } }
        }
        printf("END\n");
    } catch (Discard &) { printf("DISCARD\n"); }
    catch (std::exception &e) { printf("EXCEPTION %s\n", e.what()); }
    return 0;
}
