// LD_PRELOAD fault injector for C17: counts the file-system operations (open/openat/creat, write/writev, close) issued on paths that contain
// $FSFAULT_MATCH, logs each of them to $FSFAULT_LOG (append), and kills the process at operation number $FSFAULT_KILL_AT:
// an open/close is not performed; a write is torn: only $FSFAULT_TORN_NUM/$FSFAULT_TORN_DEN of its bytes (rounded down) reach the file.
#define _GNU_SOURCE
#include <dlfcn.h>
#include <fcntl.h>
#include <stdarg.h>
#include <stdio.h>
#include <stdlib.h>
#include <string.h>
#include <unistd.h>
#include <sys/uio.h>

static int (*real_open)(const char *, int, ...);
static int (*real_openat)(int, const char *, int, ...);
static ssize_t (*real_write)(int, const void *, size_t);
static ssize_t (*real_writev)(int, const struct iovec *, int);
static int (*real_close)(int);
static FILE *(*real_fopen)(const char *, const char *);
static FILE *(*real_fopen64)(const char *, const char *);
static int (*real_fclose)(FILE *);
static int inited = 0, logfd = -1; static long opcount = 0, kill_at = -1; static long torn_num = 0, torn_den = 1;
static const char *match = NULL;
static char tracked[1024];   // fd -> 0 not tracked, 1 main-like, 2 "_old"
static void init(void) {
    if (inited) return; inited = 1;
    real_open = dlsym(RTLD_NEXT, "open"); real_openat = dlsym(RTLD_NEXT, "openat"); real_write = dlsym(RTLD_NEXT, "write"); real_writev = dlsym(RTLD_NEXT, "writev"); real_close = dlsym(RTLD_NEXT, "close");
    real_fopen = dlsym(RTLD_NEXT, "fopen"); real_fopen64 = dlsym(RTLD_NEXT, "fopen64"); real_fclose = dlsym(RTLD_NEXT, "fclose");
    match = getenv("FSFAULT_MATCH"); const char *k = getenv("FSFAULT_KILL_AT"); if (k) kill_at = atol(k);
    const char *n = getenv("FSFAULT_TORN_NUM"), *d = getenv("FSFAULT_TORN_DEN"); if (n) torn_num = atol(n); if (d && atol(d) > 0) torn_den = atol(d);
    const char *l = getenv("FSFAULT_LOG"); if (l) logfd = real_open(l, O_WRONLY | O_APPEND | O_CREAT, 0644);
}
static void logline(const char *what, int fd, long a, long b) { if (logfd < 0) return; char buf[160]; int n = snprintf(buf, sizeof buf, "FS %ld %s %s %ld %ld\n", opcount, what, (fd >= 0 && fd < 1024 && tracked[fd] == 2) ? "old" : "main", a, b); real_write(logfd, buf, (size_t)n); }
static int is_match(const char *p) { return match && p && strstr(p, match) != NULL; }
static int is_old(const char *p) { size_t n = strlen(p); return n >= 4 && strcmp(p + n - 4, "_old") == 0; }
static void die(void) { if (logfd >= 0) { const char m[] = "KILLED\n"; real_write(logfd, m, sizeof m - 1); } _exit(137); }
static int on_open(const char *path, int flags, int fd_result_placeholder) { (void)fd_result_placeholder; (void)flags; (void)path; return 0; }

int open(const char *path, int flags, ...) {
    init(); mode_t mode = 0; if (flags & O_CREAT) { va_list ap; va_start(ap, flags); mode = va_arg(ap, mode_t); va_end(ap); }
    if (is_match(path)) { opcount++; int wr = (flags & O_ACCMODE) != O_RDONLY; if (kill_at == opcount) { logline(wr ? "open-w(killed)" : "open-r(killed)", -1, 0, 0); die(); }
        int fd = real_open(path, flags, mode); if (fd >= 0 && fd < 1024) tracked[fd] = is_old(path) ? 2 : 1; logline(wr ? ((flags & O_TRUNC) ? "open-trunc" : "open-w") : "open-r", fd, 0, 0); return fd; }
    return real_open(path, flags, mode);
}
int open64(const char *path, int flags, ...) { mode_t mode = 0; if (flags & O_CREAT) { va_list ap; va_start(ap, flags); mode = va_arg(ap, mode_t); va_end(ap); } return open(path, flags, mode); }
int openat(int dirfd, const char *path, int flags, ...) {
    init(); mode_t mode = 0; if (flags & O_CREAT) { va_list ap; va_start(ap, flags); mode = va_arg(ap, mode_t); va_end(ap); }
    if (is_match(path)) { opcount++; int wr = (flags & O_ACCMODE) != O_RDONLY; if (kill_at == opcount) { logline(wr ? "open-w(killed)" : "open-r(killed)", -1, 0, 0); die(); }
        int fd = real_openat(dirfd, path, flags, mode); if (fd >= 0 && fd < 1024) tracked[fd] = is_old(path) ? 2 : 1; logline(wr ? ((flags & O_TRUNC) ? "open-trunc" : "open-w") : "open-r", fd, 0, 0); return fd; }
    return real_openat(dirfd, path, flags, mode);
}
int openat64(int dirfd, const char *path, int flags, ...) { mode_t mode = 0; if (flags & O_CREAT) { va_list ap; va_start(ap, flags); mode = va_arg(ap, mode_t); va_end(ap); } return openat(dirfd, path, flags, mode); }
ssize_t write(int fd, const void *buf, size_t n) {
    init();
    if (fd >= 0 && fd < 1024 && tracked[fd]) { opcount++;
        if (kill_at == opcount) { size_t part = (size_t)(((long)n * torn_num) / torn_den); if (part >= n && n > 0) part = n - 1; if (part > 0) real_write(fd, buf, part); logline("write(torn)", fd, (long)part, (long)n); die(); }
        ssize_t r = real_write(fd, buf, n); logline("write", fd, (long)r, (long)n); return r; }
    return real_write(fd, buf, n);
}
ssize_t writev(int fd, const struct iovec *iov, int cnt) {
    init();
    if (fd >= 0 && fd < 1024 && tracked[fd]) { opcount++; long total = 0; for (int i = 0; i < cnt; i++) total += (long)iov[i].iov_len;
        if (kill_at == opcount) { long part = (total * torn_num) / torn_den; if (part >= total && total > 0) part = total - 1; long left = part; for (int i = 0; i < cnt && left > 0; i++) { long k = (long)iov[i].iov_len < left ? (long)iov[i].iov_len : left; real_write(fd, iov[i].iov_base, (size_t)k); left -= k; } logline("write(torn)", fd, part, total); die(); }
        ssize_t r = real_writev(fd, iov, cnt); logline("write", fd, (long)r, total); return r; }
    return real_writev(fd, iov, cnt);
}
int close(int fd) {
    init();
    if (fd >= 0 && fd < 1024 && tracked[fd]) { opcount++; if (kill_at == opcount) { logline("close(killed)", fd, 0, 0); die(); } int r = real_close(fd); logline("close", fd, 0, 0); tracked[fd] = 0; return r; }
    return real_close(fd);
}

// libstdc++ file streams open through fopen()/fclose() and write through write()/writev() on the descriptor
static FILE *do_fopen(const char *path, const char *mode, int use64) {
    init();
    if (is_match(path)) { opcount++; int wr = strchr(mode, 'w') || strchr(mode, 'a') || strchr(mode, '+');
        if (kill_at == opcount) { logline(wr ? "open-w(killed)" : "open-r(killed)", -1, 0, 0); die(); }
        FILE *f = use64 ? real_fopen64(path, mode) : real_fopen(path, mode);
        if (f) { int fd = fileno(f); if (fd >= 0 && fd < 1024) tracked[fd] = is_old(path) ? 2 : 1; logline(wr ? (strchr(mode, 'w') ? "open-trunc" : "open-w") : "open-r", fd, 0, 0); } else logline("open-failed", -1, 0, 0);
        return f; }
    return use64 ? real_fopen64(path, mode) : real_fopen(path, mode);
}
FILE *fopen(const char *path, const char *mode) { return do_fopen(path, mode, 0); }
FILE *fopen64(const char *path, const char *mode) { return do_fopen(path, mode, 1); }
int fclose(FILE *f) {
    init(); int fd = f ? fileno(f) : -1;
    if (fd >= 0 && fd < 1024 && tracked[fd]) { opcount++; if (kill_at == opcount) { logline("close(killed)", fd, 0, 0); die(); } int keep = tracked[fd]; tracked[fd] = 0; int r = real_fclose(f); tracked[fd] = (char)keep; logline("close", fd, 0, 0); tracked[fd] = 0; return r; }
    return real_fclose(f);
}
