#!/usr/bin/env python3
"""Builds TASMANIAN (from $VERIF_REPO, default /repo, *current working tree*) and the harness
binaries by direct compiler calls, into a content-addressed cache under /verif/.build.

  build.py <flavour> [target ...]     prints the absolute path of each requested target

Flavours: asan tsan plain serial omp fuzz.  Every object is keyed by
sha256(compiler flags, hash of every repo source file, hash of every engine header, its own
source), so any edit under /repo forces a rebuild of what depends on it and an unchanged tree
costs only the hashing.  Concurrent invocations serialise on a lock file.
"""
import hashlib, os, subprocess, sys, fcntl, time, shutil, re
from concurrent.futures import ThreadPoolExecutor

VERIF = os.path.dirname(os.path.abspath(__file__))
REPO = os.environ.get("VERIF_REPO", "/repo")
CACHE = os.path.join(VERIF, ".build")
OBJ = os.path.join(CACHE, "obj")
GUARD = "TASMANIAN_VERIF_HOOKS"
JOBS = int(os.environ.get("VERIF_JOBS", "16"))

LIB_SG = """TasmanianSparseGrid.cpp TasmanianSparseGridWrapC.cpp tsgAcceleratedDataStructures.cpp
tsgCoreOneDimensional.cpp tsgDConstructGridGlobal.cpp tsgGridGlobal.cpp tsgGridWavelet.cpp
tsgHardCodedTabulatedRules.cpp tsgGridLocalPolynomial.cpp tsgGridSequence.cpp tsgGridFourier.cpp
tsgIndexManipulator.cpp tsgHierarchyManipulator.cpp tsgIndexSets.cpp tsgLinearSolvers.cpp
tsgRuleWavelet.cpp tsgSequenceOptimizer.cpp""".split()
LIB = [f"SparseGrids/{f}" for f in LIB_SG] + ["InterfaceTPL/tsgGpuNull.cpp",
      "DREAM/tsgDreamState.cpp", "DREAM/tsgDreamSampleWrapC.cpp", "DREAM/tsgDreamLikelyGaussian.cpp",
      "DREAM/Optimization/TasmanianOptimizationWrapC.cpp", "DREAM/Optimization/tsgParticleSwarm.cpp",
      "DREAM/Optimization/tsgGradientDescent.cpp"]
TASGRID = ["Tasgrid/tasgrid_main.cpp", "Tasgrid/tasgridWrapper.cpp",
           "SparseGrids/gridtestExternalTests.cpp", "SparseGrids/gridtestTestFunctions.cpp"]
REPO_DIRS = ["SparseGrids", "DREAM", "Addons", "Tasgrid", "InterfaceTPL", "Config"]

SAN = "-fsanitize=address,undefined -fno-sanitize-recover=undefined -fno-omit-frame-pointer"
FLAVOURS = {
    # name: (compiler, compile flags, link flags)
    "asan":   ("clang++", f"-std=gnu++17 -g -O1 {SAN}", f"{SAN} -lrapidcheck -lpthread"),
    "fuzz":   ("clang++", f"-std=gnu++17 -g -O1 {SAN} -fsanitize=fuzzer-no-link", f"{SAN} -fsanitize=fuzzer -lpthread"),
    "tsan":   ("clang++", "-std=gnu++17 -g -O1 -fsanitize=thread -fno-omit-frame-pointer", "-fsanitize=thread -lrapidcheck -lpthread"),
    "plain":  ("g++", "-std=gnu++17 -g -O1", "-lrapidcheck -lpthread"),
    "serial": ("g++", "-std=gnu++17 -O2", "-lpthread"),
    "omp":    ("g++", "-std=gnu++17 -O2 -fopenmp", "-fopenmp -lpthread"),
}
# harness targets per flavour: name -> (engine sources, needs lib)
ENG = "engine"
def engine_sources(sub):
    d = os.path.join(VERIF, ENG, sub)
    return sorted(os.path.join(ENG, sub, f) for f in os.listdir(d) if f.endswith(".cpp")) if os.path.isdir(d) else []

def targets_for(flavour):
    t = {}
    if flavour == "asan":
        t["vdrive"] = [f"{ENG}/main_rc.cpp"] + engine_sources(os.environ.get("VERIF_PROPS_SUBDIR", "props"))   # VERIF_PROPS_SUBDIR: developer aid, build a driver with one work-in-progress property only
        t["tasgrid"] = TASGRID
    elif flavour == "fuzz":
        t["vfuzz"] = [f"{ENG}/main_fuzz.cpp"] + engine_sources("props")
    elif flavour == "tsan":
        t["vdrive_tsan"] = [f"{ENG}/main_rc.cpp"] + engine_sources("props_tsan")
    elif flavour == "plain":
        t["c17driver"] = [f"{ENG}/c17/c17driver.cpp"]
        t["fsfault.so"] = ["shim/fsfault.c"]
    if os.environ.get("VERIF_PROBE"):   # developer aid: build one stand-alone program against the library objects
        t = {"probe": [os.environ["VERIF_PROBE"]]}
    elif flavour in ("serial", "omp"):
        t["c13runner"] = [f"{ENG}/c13/c13runner.cpp"]
    return t

def sha(*parts):
    h = hashlib.sha256()
    for p in parts:
        h.update(p if isinstance(p, bytes) else p.encode()); h.update(b"\0")
    return h.hexdigest()[:24]

def tree_hash(root, dirs, exts):
    h = hashlib.sha256()
    for d in dirs:
        for dp, dn, fn in sorted(os.walk(os.path.join(root, d))):
            dn.sort()
            for f in sorted(fn):
                if f.endswith(exts):
                    p = os.path.join(dp, f)
                    h.update(os.path.relpath(p, root).encode()); h.update(b"\0")
                    with open(p, "rb") as fh: h.update(fh.read())
                    h.update(b"\0")
    return h.hexdigest()[:24]

def gen_config(dest):
    """TasmanianConfig.hpp / tasgridLogs.hpp equal to the pinned configuration (no BLAS/GPU/MPI)."""
    os.makedirs(dest, exist_ok=True)
    src = open(os.path.join(REPO, "Config/TasmanianConfig.in.hpp")).read()
    vals = {"Tasmanian_VERSION_MAJOR": "8", "Tasmanian_VERSION_MINOR": "2", "Tasmanian_version_comment": " (development)",
            "Tasmanian_license": "BSD 3-Clause with UT-Battelle disclaimer", "Tasmanian_git_hash": "verif-build",
            "Tasmanian_cxx_flags": "verif"}
    m = re.search(r"VERSION\s+(\d+)\.(\d+)", open(os.path.join(REPO, "CMakeLists.txt")).read())
    if m: vals["Tasmanian_VERSION_MAJOR"], vals["Tasmanian_VERSION_MINOR"] = m.group(1), m.group(2)
    src = re.sub(r"@(\w+)@", lambda mm: vals.get(mm.group(1), ""), src)
    src = re.sub(r"#cmakedefine (\w+)", r"/* #undef \1 */", src)
    open(os.path.join(dest, "TasmanianConfig.hpp"), "w").write(src)
    logs = open(os.path.join(REPO, "Tasgrid/tasgridLogs.in.hpp")).read()
    logs = re.sub(r"@(\w+)@", "", logs)
    open(os.path.join(dest, "tasgridLogs.hpp"), "w").write(logs)

def run(cmd):
    r = subprocess.run(cmd, shell=True, stdout=subprocess.PIPE, stderr=subprocess.STDOUT, text=True)
    if r.returncode != 0:
        sys.stderr.write(f"BUILD FAILED: {cmd}\n{r.stdout}\n")
        raise SystemExit(2)

def main():
    flavour = sys.argv[1]
    want = sys.argv[2:]
    cxx, cflags, lflags = FLAVOURS[flavour]
    os.makedirs(OBJ, exist_ok=True)
    lock = open(os.path.join(CACHE, "lock"), "w")
    fcntl.flock(lock, fcntl.LOCK_EX)
    repo_h = tree_hash(REPO, REPO_DIRS, (".cpp", ".hpp", ".h", ".in.hpp", ".table"))
    eng_h = tree_hash(VERIF, [ENG, "shim"], (".hpp", ".h"))
    cfgdir = os.path.join(CACHE, "cfg-" + repo_h)
    if not os.path.isdir(cfgdir): gen_config(cfgdir)
    inc = " ".join(f"-I{REPO}/{d}" for d in ["SparseGrids", "DREAM", "DREAM/Optimization", "Addons", "InterfaceTPL", "Config", "Tasgrid"])
    inc += f" -I{cfgdir} -I{VERIF}/{ENG}"
    defs = f"-D{GUARD}"
    tg = targets_for(flavour)
    if want: tg = {k: v for k, v in tg.items() if k in want}
    jobs = []   # (src abs, obj path, cmd)
    def obj_for(rel, is_repo, extra=""):
        src = os.path.join(REPO if is_repo else VERIF, rel)
        content = open(src, "rb").read()
        key = sha(cxx, cflags, extra, defs, repo_h, "" if is_repo else eng_h, rel, content)
        o = os.path.join(OBJ, f"{flavour}-{key}.o")
        if not os.path.exists(o):
            comp = cxx if not rel.endswith(".c") else ("clang" if cxx == "clang++" else "gcc")
            fl = cflags if not rel.endswith(".c") else "-g -O1 -fPIC"
            jobs.append(f"{comp} {fl} {extra} {defs} {inc} -c {src} -o {o}.tmp{os.getpid()} && mv {o}.tmp{os.getpid()} {o}")
        else:
            os.utime(o)
        return o
    libobjs = [obj_for(f, True) for f in LIB]
    outs = {}
    links = []
    for name, srcs in tg.items():
        objs = []
        for s in srcs:
            is_repo = not (s.startswith(ENG) or s.startswith("shim") or s.startswith("/"))
            extra = ""
            if flavour == "fuzz" and s.endswith("main_fuzz.cpp"): extra = ""
            objs.append(obj_for(s, is_repo, extra))
        shared = name.endswith(".so")
        allobjs = objs + ([] if shared else libobjs)
        key = sha(flavour, name, lflags, *allobjs)
        out = os.path.join(CACHE, "bin", f"{flavour}-{key}", name)
        outs[name] = out
        if not os.path.exists(out):
            os.makedirs(os.path.dirname(out), exist_ok=True)
            if shared:
                links.append(f"gcc -shared -o {out}.tmp {' '.join(objs)} -ldl && mv {out}.tmp {out}")
            else:
                links.append(f"{cxx} -o {out}.tmp {' '.join(allobjs)} {lflags} && mv {out}.tmp {out}")
        else:
            os.utime(os.path.dirname(out))
    if jobs:
        t0 = time.time()
        with ThreadPoolExecutor(JOBS) as ex: list(ex.map(run, jobs))
        sys.stderr.write(f"[build {flavour}] compiled {len(jobs)} objects in {time.time()-t0:.0f}s\n")
    for l in links: run(l)
    gc()
    fcntl.flock(lock, fcntl.LOCK_UN)
    for name in tg: print(outs[name])

def gc(limit_bytes=6 << 30):
    """LRU eviction of the cache (disk is limited)."""
    ents = []
    for d in (OBJ,):
        for f in os.listdir(d):
            p = os.path.join(d, f); st = os.stat(p); ents.append((st.st_mtime, st.st_size, p))
    bind = os.path.join(CACHE, "bin")
    if os.path.isdir(bind):
        for f in os.listdir(bind):
            p = os.path.join(bind, f)
            sz = sum(os.path.getsize(os.path.join(p, g)) for g in os.listdir(p))
            ents.append((os.stat(p).st_mtime, sz, p))
    total = sum(e[1] for e in ents)
    for mt, sz, p in sorted(ents):
        if total <= limit_bytes: break
        if time.time() - mt < 3600: break
        if os.path.isdir(p): shutil.rmtree(p, ignore_errors=True)
        else: os.unlink(p)
        total -= sz
    for f in os.listdir(CACHE):
        if f.startswith("cfg-"):
            p = os.path.join(CACHE, f)
            if time.time() - os.stat(p).st_mtime > 86400 * 2: shutil.rmtree(p, ignore_errors=True)

if __name__ == "__main__":
    main()
