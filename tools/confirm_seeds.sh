#!/bin/bash
# confirm_seeds.sh <seed id> ... : independent confirmation of seeded changes in ONE scratch worktree of /repo (outside /repo and /verif):
# for each seed: demo passes on the clean tree, patch applies and compiles, demo fails with the patch, the 14 ctest entries pass with the patch.
# Results are written to /verif/seeded/<id>/confirm.json. The worktree and its build are removed at the end.
WT=/tmp/confirm_wt_$$
git -C /repo worktree add --detach $WT HEAD > /dev/null 2>&1 || exit 2
cmake -G Ninja -S $WT -B $WT/_build -DCMAKE_BUILD_TYPE=RelWithDebInfo -DCMAKE_CXX_FLAGS=-Wno-error -DBUILD_SHARED_LIBS=ON -DTasmanian_ENABLE_OPENMP=OFF -DTasmanian_ENABLE_BLAS=OFF -DTasmanian_ENABLE_PYTHON=OFF -DTasmanian_ENABLE_RECOMMENDED=OFF > $WT/cmake.log 2>&1
cmake --build $WT/_build -j6 > $WT/build.log 2>&1 || { echo "baseline build failed"; git -C /repo worktree remove --force $WT; exit 2; }
INC="-I$WT/SparseGrids -I$WT/DREAM -I$WT/DREAM/Optimization -I$WT/Addons -I$WT/InterfaceTPL -I$WT/_build/configured -I$WT/Config"
LIB="-L$WT/_build/DREAM -L$WT/_build/SparseGrids -ltasmaniandream -ltasmaniansparsegrid -lpthread -Wl,-rpath,$WT/_build/SparseGrids -Wl,-rpath,$WT/_build/DREAM"
run_demo() { # $1 seed dir, prints PASS/FAIL/ERROR
  local d=$1
  if [ -f $d/demo.cpp ]; then
    local extra=""; grep -q "fopenmp" $d/demo.cpp && extra="-fopenmp"
    sed "s#/tmp/seed_[A-Za-z0-9]*#$WT#g" $d/demo.cpp > $WT/demo_src.cpp   # demos may embed the path of the tree they were developed in
    g++ -std=c++17 -O1 $extra $WT/demo_src.cpp $INC $LIB -o $WT/demo_bin > $WT/demo_build.log 2>&1 || { echo ERROR-BUILD; return; }
    local arg=""; case "$d" in */C16-*) arg="$WT/_build/Tasgrid/tasgrid";; esac   # (only the tasgrid demonstrations take the tool path as argument)
    (cd $WT && timeout 600 ./demo_bin $arg > $WT/demo_out.log 2>&1); local rc=$?
  else
    sed "s#/tmp/seed_[A-Za-z0-9]*#$WT#g" $d/demo.sh > $WT/demo_run.sh; (cd $WT && timeout 600 bash $WT/demo_run.sh > $WT/demo_out.log 2>&1); local rc=$?
  fi
  if [ $rc -eq 0 ] && ! grep -q "FAIL" $WT/demo_out.log; then echo PASS; else echo FAIL; fi
}
for id in "$@"; do
  d=/verif/seeded/$id
  git -C $WT checkout -q -- . ; cmake --build $WT/_build -j6 > $WT/build.log 2>&1
  clean=$(run_demo $d)
  if ! git -C $WT apply $d/patch.diff 2> $WT/apply.log; then echo "{\"seed\":\"$id\",\"applies\":false}" > $d/confirm.json; echo "$id: patch does not apply"; continue; fi
  if ! cmake --build $WT/_build -j6 > $WT/build.log 2>&1; then echo "{\"seed\":\"$id\",\"applies\":true,\"compiles\":false}" > $d/confirm.json; echo "$id: does not compile"; continue; fi
  mutated=$(run_demo $d)
  ctest --test-dir $WT/_build -j6 --timeout 1500 > $WT/ctest.log 2>&1
  summary=$(grep "tests passed" $WT/ctest.log | head -1)
  passed=false; echo "$summary" | grep -q "100% tests passed" && passed=true
  echo "{\"seed\":\"$id\",\"applies\":true,\"compiles\":true,\"demo_on_clean_tree\":\"$clean\",\"demo_with_patch\":\"$mutated\",\"ctest_with_patch\":\"$summary\",\"suite_passes_with_patch\":$passed,\"repo_head\":\"$(git -C /repo rev-parse --short HEAD)\"}" > $d/confirm.json
  echo "$id: clean=$clean patched=$mutated ctest=[$summary]"
done
git -C /repo worktree remove --force $WT
