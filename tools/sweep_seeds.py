#!/usr/bin/env python3
"""sweep_seeds.py [seed ids...] : runs the nominal check of every seeded change (quick tier; thorough tier when quick misses) against a
scratch copy of /repo with the change applied (tools/try_seed.sh, never touches /repo) and records the verdict in seeded/<id>/detect.json."""
import json, os, re, subprocess, sys, time
V = '/verif'
ids = sys.argv[1:] or sorted(os.listdir(f'{V}/seeded'))
for sid in ids:
    d = f'{V}/seeded/{sid}'
    if not os.path.exists(f'{d}/patch.diff'): continue
    prop = json.load(open(f'{d}/meta.json'))['property']
    res = {'seed': sid, 'property': prop, 'runs': [], 'repo_head': subprocess.run(['git', '-C', '/repo', 'rev-parse', '--short', 'HEAD'], capture_output=True, text=True).stdout.strip(),
           'verif_head': subprocess.run(['git', '-C', V, 'rev-parse', '--short', 'HEAD'], capture_output=True, text=True).stdout.strip()}
    detected = None
    for tier in ('quick', 'thorough'):
        t0 = time.time()
        out = subprocess.run([f'{V}/tools/try_seed.sh', f'{d}/patch.diff', prop, '--tier', tier], capture_output=True, text=True).stdout
        m = re.search(r'SEED-RESULT .* exit=(\d+) violations=(\d+) wall=(\d+)s', out)
        first = next((l for l in out.splitlines() if l.startswith('VIOLATION')), '')
        why = [l for l in out.splitlines() if not l.startswith(('VIOLATION', 'SEED-RESULT'))][:3]
        run = {'tier': tier, 'command': f'tools/try_seed.sh seeded/{sid}/patch.diff {prop} --tier {tier}', 'exit': int(m.group(1)) if m else None, 'violations': int(m.group(2)) if m else None,
               'wall_s': int(time.time() - t0), 'first_violation': first, 'detail': why}
        res['runs'].append(run)
        if m and int(m.group(2)) > 0: detected = tier; break
    res['detected_in_tier'] = detected
    json.dump(res, open(f'{d}/detect.json', 'w'), indent=1)
    print(sid, prop, 'detected in', detected, [r['wall_s'] for r in res['runs']], flush=True)
