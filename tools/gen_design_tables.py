#!/usr/bin/env python3
"""gen_design_tables.py : rewrites the generated blocks of DESIGN.md (between <!-- BEGIN:x --> and <!-- END:x -->) from known_findings.json,
seeded/*/meta.json and tools/mutants/revert-results.json, so that the document and the machine-readable files cannot drift apart."""
import json, os, re
V = '/verif'
def esc(s): return str(s).replace('|', '\\|').replace('\n', ' ')
kf = json.load(open(f'{V}/known_findings.json'))
blocks = {}
# fixed findings
rows = ['| property | commit | what failed on the pinned tree |', '|---|---|---|']
for f in kf['fixed']:
    m = re.match(r'fixed: property=(\S+) (\S+) (.*)', f)
    rows.append(f'| {m.group(1)} | `{m.group(2)}` | {esc(m.group(3))} |')
blocks['fixed'] = '\n'.join(rows)
rows = ['| property | id | what fails (witness in `replays/`) | why recorded and not repaired |', '|---|---|---|---|']
for f in kf['findings']:
    if f['status'] != 'known': continue
    rows.append(f"| {f['property']} | `{f['id']}` | {esc(f['what'])} (`{f['witness']}`) | {esc(f.get('why_not_fixed') or 'same root cause as the entry it names; see there')} |")
blocks['known'] = '\n'.join(rows)
rows = ['| seed | property | change (one line) | needs | demo clean / patched | suite with patch | caught by nominal check | also caught by |', '|---|---|---|---|---|---|---|---|']
for sid in sorted(os.listdir(f'{V}/seeded')):
    p = f'{V}/seeded/{sid}/meta.json'
    if not os.path.exists(p): continue
    m = json.load(open(p)); c = m.get('confirmed_by_me') or {}; d = m.get('detection') or {}
    tier = d.get('detected_in_tier'); wall = ''
    for r in d.get('runs', []):
        if r['tier'] == tier: wall = f" ({r['wall_s']} s incl. build)"
    needs = m.get('needs_to_manifest', ''); needs = needs[:260] + ('…' if len(needs) > 260 else '')
    rows.append(f"| {sid} | {m['property']} | {esc(m.get('title',''))} | {esc(needs)} | {c.get('demo_on_clean_tree')} / {c.get('demo_with_patch')} | {esc(c.get('existing_suite_with_patch'))} | "
                f"{(tier + ' tier' + wall) if tier else ('**missed**' if d else 'not run')} | {', '.join(d.get('also_detected_by', []))} |")
blocks['seeded'] = '\n'.join(rows)
rp = f'{V}/tools/mutants/revert-results.json'
if os.path.exists(rp):
    rows = ['| reverted fix | property | quick check verdict | wall |', '|---|---|---|---|']
    for r in json.load(open(rp)): rows.append(f"| `{r['commit']}` {esc(r['subject'])} | {r['property']} | {'VIOLATION' if r['violations'] else (r.get('note') or '**missed**')} | {r['wall_s']} s |")
    blocks['reverts'] = '\n'.join(rows)
s = open(f'{V}/DESIGN.md').read()
for k, v in blocks.items():
    s, n = re.subn(rf'(<!-- BEGIN:{k} -->\n).*?(<!-- END:{k} -->)', lambda mm: mm.group(1) + v + '\n' + mm.group(2), s, flags=re.S)
    if n == 0: print('no block for', k)
open(f'{V}/DESIGN.md', 'w').write(s)
