#!/usr/bin/env python3
"""Prints the prompt given to an independent sub-agent that seeds a property-breaking change.
Usage: agent_prompt.py C07 [suffix]   (the agent gets only the property text and a scratch worktree)"""
import json, sys
pid = sys.argv[1]; suf = sys.argv[2] if len(sys.argv) > 2 else "a"
for l in open('/verif/properties.jsonl'):
    p = json.loads(l)
    if p['id'] == pid: break
else: sys.exit("no such property")
wt = f"/tmp/seed_{pid}{suf}"
print(f"""You are helping evaluate a verification effort for the C++ library TASMANIAN (sparse grids, DREAM, optimization). The library source is a git repository at /repo (use its current HEAD). You must NOT read or touch anything under /verif, and you must NOT modify /repo itself (no edits, no commits, no builds inside /repo or /repo/_build).

Your job: produce TWO different, independent source changes to TASMANIAN (call them A and B), each of which BREAKS the semantic property below while the library still compiles and the existing test suite still passes. Each change must need something specific to manifest - a particular multi-step sequence of operations, an unusual input/configuration, a particular interleaving or timing, a crash/fault at a particular point, or two cooperating code sites that each look fine alone - NOT something ordinary use or the simplest possible call would expose at once. Make them realistic: the kind of slip a maintainer could make in a refactoring or optimisation (dropped update, wrong bound, stale cache, swapped field, missing sort, early return, missing lock ...). A and B should touch different mechanisms / code sites. Do not merely re-expose a bug that already exists in the pinned tree: the demonstration must PASS on the unmodified tree.

PROPERTY {p['id']}: {p['title']}
Statement: {p['statement']}
Quantified over: {p['quantifier']['text']}
Relevant files (hint): {', '.join(p['anchors']['files'])}

Working procedure:
1. Create your own scratch worktree:  git -C /repo worktree add --detach {wt} HEAD   (work only there).
2. Configure and build there, using at most 4 cores:  cmake -G Ninja -S {wt} -B {wt}/_build -DCMAKE_BUILD_TYPE=RelWithDebInfo -DCMAKE_CXX_FLAGS=-Wno-error -DBUILD_SHARED_LIBS=ON -DTasmanian_ENABLE_OPENMP=OFF -DTasmanian_ENABLE_BLAS=OFF -DTasmanian_ENABLE_PYTHON=OFF -DTasmanian_ENABLE_RECOMMENDED=OFF && cmake --build {wt}/_build -j4   (there is no network; everything needed is installed). {"For this property you may instead/additionally need -DTasmanian_ENABLE_OPENMP=ON (g++ -fopenmp works here) for the demonstration; the test suite must pass in the default (OpenMP OFF) configuration and also still pass with OpenMP ON." if pid=='C13' else ""}
3. For each change: edit the sources in the worktree, rebuild, write a small stand-alone demonstration program (C++, linking the built library: include dirs {wt}/SparseGrids {wt}/DREAM {wt}/DREAM/Optimization {wt}/Addons {wt}/InterfaceTPL {wt}/_build/configured {wt}/Config ; libs in {wt}/_build/SparseGrids and {wt}/_build/DREAM; or a shell script driving the tasgrid binary if the property is about the tool) that exits 0 / prints PASS when the property holds and exits non-zero / prints FAIL when it is violated. Confirm: the demo PASSES on the unmodified tree and FAILS with the change.
4. Confirm the existing test suite still passes WITH the change: ctest --test-dir {wt}/_build -j4 --timeout 1500   (14 tests; this takes 15-25 minutes; all 14 must pass). If a test fails, the change is not acceptable - make it subtler.
5. Save results under {wt}_out/ (create it): A/patch.diff (output of `git -C {wt} diff` for change A only, relative to HEAD, applicable with `git apply` at the repo root), A/demo.cpp (or demo.sh) with a one-line build/run command in a comment at the top, A/notes.md (what the change is, which property clause it breaks, exactly what is needed for it to manifest, what you ran and saw, ctest result); same for B/. The two patches must each apply to a clean tree on their own.
6. When finished remove the worktree and its build:  git -C /repo worktree remove --force {wt}   (keep {wt}_out/).

Constraints: no network. Do not use more than 4 cores. Keep disk use small. Do not look at /verif. Do not change any test file of the repository. Report back briefly: for A and B, one paragraph each (file/function changed, what is needed to trigger, demo result before/after, ctest result).""")
