#!/usr/bin/env python3
"""Regenerates /verif/MANIFEST.json from props_config.py (claimed properties) and properties.jsonl (the rest -> not_applicable)."""
import json, os, sys
VERIF = os.path.dirname(os.path.dirname(os.path.abspath(__file__)))
sys.path.insert(0, VERIF)
import props_config as pc
ids = [json.loads(l)["id"] for l in open(os.path.join(VERIF, "properties.jsonl"))]
checks = []
def built(pid):   # a property is claimed only when its check is part of the committed engine (work-in-progress fragments are ignored)
    c = pc.PROPS.get(pid)
    return c is not None and (os.path.exists(os.path.join(VERIF, "engine", c.get("props_dir", "props"), pid.lower() + ".cpp")) or c.get("custom_engine"))
for pid in ids:
    if not built(pid): continue
    c = pc.PROPS[pid]; m = pc.META[pid]
    checks.append({
        "property_id": pid,
        "quick_cmd": f"python3 run_check.py {pid} --tier quick",
        "thorough_cmd": f"python3 run_check.py {pid} --tier thorough",
        "evidence_file": f"evidence/{pid}.json",
        "replay_cmd_template": f"python3 replay.py {pid} {{path}}",
        "engine": c.get("engine", "vdrive"),
        "level_claimed": {"category": c.get("level", "exploration"), "text": m["text"], "design_ref": m.get("design_ref", f"DESIGN.md section 3, {pid}")},
        "level_note": m["note"],
        "technique": m["technique"],
    })
na = [{"property_id": pid, "reason": pc.NOT_APPLICABLE.get(pid, "check not built yet in this revision of /verif (work in progress; see DESIGN.md section 3 for the planned generator and oracle)")}
      for pid in ids if not built(pid)]
doc = {
    "version": 1,
    "setup_cmd": " && ".join(f"python3 build.py {f}" for f in sorted({fl for k, p in pc.PROPS.items() if built(k) for fl in ([p["flavour"]] + p.get("extra_flavours", []))} | {"fuzz"})),
    "hooks": {"guard": pc.GUARD, "enable": f"build.py compiles every translation unit of /repo and of the harness with -D{pc.GUARD}",
              "baseline_off_cmd": "cmake --build /repo/_build -j16 && ctest --test-dir /repo/_build -j8 --timeout 900",
              "source_commits": pc.HOOK_COMMITS, "add_only": True},
    "engines": [
        {"name": "vdrive", "path": "engine/main_rc.cpp", "serves_properties": [p for p in ids if built(p) and pc.PROPS[p].get("engine", "vdrive") == "vdrive"],
         "kind_free_text": "rapidcheck (generation + shrinking over byte strings decoded by a total structure-aware decoder) with ASan/UBSan; replay mode bypasses the library"},
        {"name": "vfuzz", "path": "engine/main_fuzz.cpp", "serves_properties": [p for p in ids if built(p) and pc.PROPS[p].get("fuzz")],
         "kind_free_text": "libFuzzer (-fsanitize=fuzzer,address,undefined) over the same total decoder and the same check functions (semantic oracle inside the target); second engine of the thorough tier, artifacts are re-run, minimised and confirmed through the replay driver"},
    ] + pc.EXTRA_ENGINES,
    "checks": checks,
    "notes": "All checks rebuild the library from /repo's working tree (content-hashed cache in /verif/.build). known_findings.json lists recorded/fixed defects. See DESIGN.md.",
    "not_applicable": na,
}
json.dump(doc, open(os.path.join(VERIF, "MANIFEST.json"), "w"), indent=1)
print(f"MANIFEST.json: {len(checks)} checks, {len(na)} not_applicable")
