#!/usr/bin/env python3
"""run_reverts.py [commit...] : sensitivity self-test. For every 'fixed' entry of known_findings.json the revert of the fix commit (tools/mutants/revert-<commit>.diff)
is applied to a scratch copy of /repo (tools/try_seed.sh, never /repo itself) and the quick tier of the property's check must report a violation.
Results: tools/mutants/revert-results.json (read by tools/gen_design_tables.py)."""
import json, os, re, subprocess, sys, time
V = '/verif'; out = f'{V}/tools/mutants/revert-results.json'
res = {r['commit']: r for r in (json.load(open(out)) if os.path.exists(out) else [])}
for f in json.load(open(f'{V}/known_findings.json'))['fixed']:
    m = re.match(r'fixed: property=(\S+) (\S+) (.*)', f); prop, c, what = m.groups()
    if sys.argv[1:] and c not in sys.argv[1:]: continue
    p = f'{V}/tools/mutants/revert-{c}.diff'
    if not os.path.exists(p): continue
    subj = subprocess.run(['git', '-C', '/repo', 'log', '-1', '--format=%s', c], capture_output=True, text=True).stdout.strip()
    t0 = time.time(); o = subprocess.run([f'{V}/tools/try_seed.sh', p, prop], capture_output=True, text=True).stdout
    mm = re.search(r'SEED-RESULT .* exit=(\d+) violations=(\d+)', o)
    res[c] = {'commit': c, 'property': prop, 'subject': subj, 'exit': int(mm.group(1)) if mm else None, 'violations': int(mm.group(2)) if mm else 0, 'wall_s': int(time.time() - t0),
              'first_violation': next((l for l in o.splitlines() if l.startswith('VIOLATION')), ''), 'repo_head': subprocess.run(['git', '-C', '/repo', 'rev-parse', '--short', 'HEAD'], capture_output=True, text=True).stdout.strip()}
    json.dump(list(res.values()), open(out, 'w'), indent=1)
    print(c, prop, 'violations', res[c]['violations'], res[c]['wall_s'], 's', flush=True)
