#!/bin/bash
# run_all.sh [tier] [ids...] : runs every registered check once on /repo (sequentially), prints one summary line per property
# and keeps the full output in .work/runall/<ID>.out. Exit 1 if any check exits non-zero or prints VIOLATION.
tier=${1:-quick}; shift
ids=${@:-C01 C02 C03 C04 C05 C06 C07 C08 C09 C10 C11 C12 C13 C14 C15 C16 C17 C18 C19 C20}
mkdir -p /verif/.work/runall; bad=0
for id in $ids; do
  t0=$(date +%s); python3 /verif/run_check.py $id --tier $tier > /verif/.work/runall/$id.out 2>&1; rc=$?
  nv=$(grep -c '^VIOLATION' /verif/.work/runall/$id.out); nk=$(grep -c '^KNOWN-FINDING' /verif/.work/runall/$id.out)
  notes=$(grep -ci 'no longer reproduces\|starved\|flaky' /verif/.work/runall/$id.out)
  echo "$id exit=$rc violations=$nv known=$nk notes=$notes wall=$(( $(date +%s) - t0 ))s"
  [ $rc -ne 0 -o $nv -ne 0 ] && bad=1
done
exit $bad
