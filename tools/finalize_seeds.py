#!/usr/bin/env python3
"""finalize_seeds.py : writes seeded/<id>/meta.json from notes.md (title, 'what is needed' section), confirm.json (independent confirmation
in a scratch worktree: tools/confirm_seeds.sh / confirm_c13.sh) and detect.json (tools/sweep_seeds.py: which tier of the nominal check catches it)."""
import json, os, re, sys
V = '/verif'
EXTRA = {  # cross-detections observed while strengthening the checks (tools/try_seed.sh <patch> <other property>)
    'C02-B': ['C11'], 'C03-A': ['C01'],
}
for sid in sorted(os.listdir(f'{V}/seeded')):
    d = f'{V}/seeded/{sid}'
    if not os.path.exists(f'{d}/patch.diff'): continue
    old = json.load(open(f'{d}/meta.json'))
    notes = open(f'{d}/notes.md').read() if os.path.exists(f'{d}/notes.md') else ''
    title = notes.splitlines()[0].lstrip('# ').strip() if notes else ''
    m = re.search(r'^##[^\n]*(needed|manifest|trigger)[^\n]*\n(.*?)(?=^## |\Z)', notes, re.S | re.M | re.I)
    needs = re.sub(r'\s+', ' ', m.group(2)).strip() if m else 'see notes.md'
    conf = json.load(open(f'{d}/confirm.json')) if os.path.exists(f'{d}/confirm.json') else None
    det = json.load(open(f'{d}/detect.json')) if os.path.exists(f'{d}/detect.json') else None
    files = sorted(set(re.findall(r'^\+\+\+ b/(\S+)', open(f'{d}/patch.diff').read(), re.M)))
    meta = {
        'seed': sid, 'property': old['property'], 'title': title,
        'origin': 'fresh sub-agent given only the text of the property and its own scratch git worktree of /repo (nothing from /verif)',
        'files_changed': files, 'needs_to_manifest': needs,
        'demonstration': 'demo.sh' if os.path.exists(f'{d}/demo.sh') and not os.path.exists(f'{d}/demo.cpp') else 'demo.cpp',
        'confirmed_by_me': None if not conf else {
            'how': ('tools/confirm_c13.sh (scratch worktree, OpenMP build for the demonstration; suite run in the default and in the OpenMP build)' if 'ctest_with_patch_openmp_build' in conf
                    else 'tools/confirm_seeds.sh (scratch worktree outside /repo and /verif, removed afterwards)'),
            'patch_applies': conf.get('applies'), 'compiles': conf.get('compiles'), 'demo_on_clean_tree': conf.get('demo_on_clean_tree'), 'demo_with_patch': conf.get('demo_with_patch'),
            'existing_suite_with_patch': conf.get('ctest_with_patch'), 'repo_head': conf.get('repo_head')},
        'detection': None if not det else {
            'nominal_check': det['property'], 'detected_in_tier': det['detected_in_tier'], 'runs': [{k: r[k] for k in ('tier', 'command', 'exit', 'violations', 'wall_s', 'first_violation')} for r in det['runs']],
            'also_detected_by': EXTRA.get(sid, []), 'repo_head': det.get('repo_head'), 'verif_head': det.get('verif_head')},
    }
    json.dump(meta, open(f'{d}/meta.json', 'w'), indent=1)
    print(sid, 'confirmed' if conf and conf.get('demo_with_patch') == 'FAIL' and conf.get('demo_on_clean_tree') == 'PASS' and conf.get('suite_passes_with_patch') else 'UNCONFIRMED', 'detected:', det and det['detected_in_tier'])
