#!/bin/bash
# confirm_c13.sh <seed id> ... : like confirm_seeds.sh but with an OpenMP build of the library (the C13 demonstrations compare thread counts);
# ctest is run with the patch in the default (OpenMP OFF) build AND in the OpenMP build (few threads, passive waiting).
WT=/tmp/confirm_c13_$$
git -C /repo worktree add --detach $WT HEAD > /dev/null 2>&1 || exit 2
CM="-G Ninja -DCMAKE_BUILD_TYPE=RelWithDebInfo -DCMAKE_CXX_FLAGS=-Wno-error -DBUILD_SHARED_LIBS=ON -DTasmanian_ENABLE_BLAS=OFF -DTasmanian_ENABLE_PYTHON=OFF -DTasmanian_ENABLE_RECOMMENDED=OFF"
cmake $CM -S $WT -B $WT/_build -DTasmanian_ENABLE_OPENMP=OFF > /dev/null 2>&1; cmake $CM -S $WT -B $WT/_omp -DTasmanian_ENABLE_OPENMP=ON > /dev/null 2>&1
build() { cmake --build $WT/_build -j6 > $WT/b1.log 2>&1 && cmake --build $WT/_omp -j6 > $WT/b2.log 2>&1; }
build || { echo "baseline build failed"; git -C /repo worktree remove --force $WT; exit 2; }
INC="-I$WT/SparseGrids -I$WT/DREAM -I$WT/DREAM/Optimization -I$WT/Addons -I$WT/InterfaceTPL -I$WT/_omp/configured -I$WT/Config"
LIB="-L$WT/_omp/DREAM -L$WT/_omp/SparseGrids -ltasmaniandream -ltasmaniansparsegrid -lpthread -fopenmp -Wl,-rpath,$WT/_omp/SparseGrids -Wl,-rpath,$WT/_omp/DREAM"
run_demo() { local d=$1; sed "s#/tmp/seed_[A-Za-z0-9]*#$WT#g" $d/demo.cpp > $WT/demo_src.cpp
  g++ -std=c++17 -O1 -fopenmp $WT/demo_src.cpp $INC $LIB -o $WT/demo_bin > $WT/demo_build.log 2>&1 || { echo ERROR-BUILD; return; }
  (cd $WT && OMP_WAIT_POLICY=passive timeout 900 ./demo_bin > $WT/demo_out.log 2>&1); local rc=$?
  if [ $rc -eq 0 ] && ! grep -q "FAIL" $WT/demo_out.log; then echo PASS; else echo FAIL; fi; }
for id in "$@"; do d=/verif/seeded/$id
  git -C $WT checkout -q -- . ; build; clean=$(run_demo $d)
  git -C $WT apply $d/patch.diff 2> $WT/apply.log || { echo "$id: patch does not apply"; continue; }
  build || { echo "$id: does not compile"; continue; }
  mutated=$(run_demo $d)
  ctest --test-dir $WT/_build -j6 --timeout 1500 > $WT/ctest1.log 2>&1; s1=$(grep "tests passed" $WT/ctest1.log | head -1)
  OMP_NUM_THREADS=3 OMP_WAIT_POLICY=passive ctest --test-dir $WT/_omp -j2 --timeout 1500 > $WT/ctest2.log 2>&1; s2=$(grep "tests passed" $WT/ctest2.log | head -1)
  passed=false; echo "$s1" | grep -q "100% tests passed" && passed=true
  echo "{\"seed\":\"$id\",\"applies\":true,\"compiles\":true,\"demo_on_clean_tree\":\"$clean\",\"demo_with_patch\":\"$mutated\",\"ctest_with_patch\":\"$s1\",\"ctest_with_patch_openmp_build\":\"$s2\",\"suite_passes_with_patch\":$passed,\"repo_head\":\"$(git -C /repo rev-parse --short HEAD)\"}" > $d/confirm.json
  echo "$id: clean=$clean patched=$mutated ctest=[$s1] ctest-omp=[$s2]"
done
git -C /repo worktree remove --force $WT
