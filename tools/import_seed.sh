#!/bin/bash
# import_seed.sh <agent out dir> <sub> <seed id> <property>: copies patch/demo/notes of an agent-produced change into /verif/seeded/<seed id>/
src=$1/$2; id=$3; prop=$4; dst=/verif/seeded/$id
mkdir -p $dst; cp $src/patch.diff $dst/; for f in demo.cpp demo.sh notes.md; do [ -f $src/$f ] && cp $src/$f $dst/; done
[ -f $dst/meta.json ] || cat > $dst/meta.json <<M
{"seed": "$id", "property": "$prop", "origin": "independent sub-agent given only the property text and a scratch worktree", "needs": "see notes.md", "confirmed": null, "detected_by": null}
M
echo imported $id
