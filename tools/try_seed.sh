#!/bin/bash
# try_seed.sh <patch.diff> <PROP> [extra run_check args]  : applies the patch to a scratch copy of /repo (outside /repo and /verif),
# runs the property's check against it (VERIF_REPO), prints the verdict, removes the scratch copy. Never touches /repo.
set -u
patch=$(readlink -f "$1"); prop=$2; shift 2
scratch=$(mktemp -d /tmp/vscratch_XXXXXX)
rsync -a --exclude _build --exclude .git /repo/ "$scratch/"
if ! (cd "$scratch" && patch -p1 --quiet < "$patch"); then echo "PATCH-DOES-NOT-APPLY $patch"; rm -rf "$scratch"; exit 3; fi
ev=$(mktemp -d /tmp/vevid_XXXXXX)
start=$(date +%s)
VERIF_REPO="$scratch" VERIF_EVIDENCE_DIR="$ev" python3 /verif/run_check.py "$prop" "$@" > "$ev/out.txt" 2>&1
rc=$?
end=$(date +%s)
nv=$(grep -c '^VIOLATION' "$ev/out.txt")
echo "SEED-RESULT patch=$patch prop=$prop exit=$rc violations=$nv wall=$((end-start))s"
grep '^VIOLATION' "$ev/out.txt" | head -3
for f in $(grep '^VIOLATION' "$ev/out.txt" | head -1 | sed 's/.*replay=\([^ ]*\).*/\1/'); do [ -f "$f.txt" ] && grep -v "trying" "$f.txt" | tail -4 | cut -c1-400; done
grep -v '^VIOLATION\|^KNOWN' "$ev/out.txt" | tail -3
rm -rf "$scratch" "$ev"
