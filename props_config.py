"""Per-property configuration of the supervisor (budgets, flavour, distribution floors)."""

def grid_prop(cases_q, cases_t, size=200, **kw):
    d = dict(flavour="asan", binary="vdrive", level="exploration",
             quick=dict(cases=cases_q, size=size, wall=900),
             thorough=dict(cases=cases_t, size=size + 100, wall=3000, case_budget=60),
             assumptions=["sanitizers (ASan+UBSan) see every memory error on the executed paths",
                          "harness reference models (value dictionary, moments, maps, 1-D hierarchy) are correct; cross-checked at start-up where stated in DESIGN.md"])
    d.update(kw); return d

FAMS = {"fam:global": 0.08, "fam:sequence": 0.08, "fam:localp": 0.08, "fam:wavelet": 0.08, "fam:fourier": 0.06}
PROPS = {
    "C01": grid_prop(60000, 1500000, floors=dict(FAMS, **{"hist:construction": 0.05, "hist:refined": 0.2, "lp:d>=3": 0.01, "wave:o3": 0.02})),
    "C04": grid_prop(12000, 500000, floors=dict(FAMS, **{"state:pending": 0.03, "state:merged": 0.02, "state:constructing": 0.03, "state:coeff-overwritten": 0.05, "batch>=32": 0.2, "x:support-boundary": 0.06})),
    "C07": grid_prop(15000, 600000, floors=dict(FAMS, **{"limits": 0.2, "scale:vector": 0.02, "scale:raw": 0.02, "classic:tol-gap": 0.05, "classic:tol0": 0.03, "merge": 0.03,
                     "strategy:classic": 0.01, "strategy:parents": 0.01, "strategy:direction": 0.01, "strategy:fds": 0.01, "strategy:stable": 0.01})),
    "C08": grid_prop(20000, 800000, hang_is_violation=True, floors=dict(FAMS, **{"type:curved": 0.05, "limits:binding": 0.2, "limits:persisted-call": 0.1, "limits:-1-mixed": 0.1, "limits:saturated-return": 0.03})),
    "C09": grid_prop(8000, 300000, floors=dict(FAMS, **{"batch:singles": 0.2, "interleaved-candidates": 0.1, "start:empty": 0.15, "target:stable-refined": 0.03})),
    "C11": grid_prop(25000, 800000, floors=dict(FAMS, **{"range-copy": 0.1, "src:pending": 0.015, "src:constructing": 0.05, "range:construction-continuation": 0.01})),
    "C14": grid_prop(30000, 1000000, hang_is_violation=True, floors={"state:E": 0.03, "state:F": 0.05, "state:L": 0.1, "state:P": 0.012, "state:C": 0.05, "state:Z": 0.03, "post:empty": 0.03}),
    "C12": dict(flavour="tsan", binary="vdrive_tsan", level="exploration", props_dir="props_tsan",
                quick=dict(cases=3000, size=200, wall=900, case_budget=30, shards=8), thorough=dict(cases=200000, size=300, wall=3000, case_budget=60),
                floors=dict(FAMS, **{"wavelet-weight-queries": 0.03}),
                assumptions=["ThreadSanitizer reports every data race between the executed calls (happens-before analysis; it does not depend on the actual interleaving)",
                             "deadlocks and lost wake-ups that need one specific interleaving are only reachable through the start jitter"]),
    "C18": dict(flavour="tsan", binary="vdrive_tsan", level="exploration", props_dir="props_tsan", hang_is_violation=True,
                quick=dict(cases=2500, size=200, wall=900, case_budget=40, shards=8), thorough=dict(cases=150000, size=300, wall=3000, case_budget=400),
                floors=dict(FAMS, **{"mode:load": 0.1, "budget<workers": 0.08, "budget<=loaded": 0.05, "tolerance-reached-early": 0.03, "latency:skewed": 0.5}),
                assumptions=["ThreadSanitizer reports every data race between the executed threads (happens-before analysis)",
                             "worker schedules are perturbed by generated model latencies, not enumerated: a deadlock or lost wake-up that needs one specific interleaving can be missed"]),
    "C13": grid_prop(280, 20000, size=120, schedule_dependent=True, quick=dict(cases=280, size=120, wall=900, shards=8, case_budget=60), extra_flavours=["serial", "omp"], runner_env={"VERIF_C13_SERIAL": ("serial", "c13runner"), "VERIF_C13_OMP": ("omp", "c13runner")},
                     floors={"points>=1000": 0.3}, 
                     assumptions=["no dynamic race detector understands libgomp here (ThreadSanitizer reports false races): only schedule-dependent OUTCOMES across thread counts are observed",
                                  "refinement tolerances come from a fixed palette, so a rounding difference in a reduction flipping a decision is improbable but not excluded; floats are compared to 1e-10 relative"]),
    "C17": grid_prop(260, 60000, size=60, level="fault_enumeration", extra_flavours=["plain"], quick=dict(cases=260, size=60, wall=900, shards=10, case_budget=60),
                     runner_env={"VERIF_C17_DRIVER": ("plain", "c17driver"), "VERIF_C17_SHIM": ("plain", "fsfault.so")},
                     floors={"kill:after-a-completed-checkpoint": 0.08, "mode:parallel": 0.02},   # (kills inside the rewrite window of the main file are excluded while C17-backup-never-written is a known finding)
                     assumptions=["crash points are the intercepted libc calls (fopen/open, write/writev, fclose/close) on the two checkpoint paths, with four torn-write fractions; reordering below the system-call level (power loss) is not modelled",
                                  "the recomputation bound is asserted in sequential mode, where every computed sample is part of the next checkpoint"]),
    "C06": grid_prop(40000, 1500000,
                     floors={"fam:global": 0.08, "fam:sequence": 0.08, "fam:localp": 0.08, "fam:wavelet": 0.08, "fam:fourier": 0.08,
                             "fmt:ascii": 0.35, "sec:pending": 0.012, "sec:construction": 0.04, "sec:transform": 0.04, "sec:limits": 0.04}),
}

GUARD = "TASMANIAN_VERIF_HOOKS"
HOOK_COMMITS = []
EXTRA_ENGINES = []
NOT_APPLICABLE = {}

_TB = "Trusted base: the harness (decoder, reference models, oracles) and the sanitizer runtimes; generation is random, so absence of violations is evidence for the explored distribution only (reported in the evidence file)."
META = {
    "C17": dict(technique="fault injection driven by property-based generation (rapidcheck): an LD_PRELOAD shim kills the process at a generated index among all intercepted file-system operations on the checkpoint files (with torn writes); a fresh process restarts; oracles over the merged log of samples and file operations",
                text="For generated configurations of constructSurrogate with a checkpoint file (local polynomial / wavelet with the tolerance overload, global / sequence / fourier with the anisotropic overload; sequential and parallel; budgets 6-25) a fault-free dry run counts the "
                     "file-system operations on the two checkpoint paths; the run is then killed at a generated operation (open, write with a torn fraction, close) and restarted in a fresh process. The restart must finish normally, the final grid must carry exactly the model values and reproduce "
                     "them, stay within the budget, must not recompute samples obtained before the last completed checkpoint, and the backup file must exist once a second checkpoint has completed. Fault enumeration over the kill index (sampled per case, every index reachable).",
                note="Trusted base: the injector shim (operations it does not intercept are invisible), the driver program, the harness. " + _TB),
    "C13": dict(technique="property-based testing (rapidcheck, byte decoder) with a differential oracle between two builds of the library: a serial-build runner and an OpenMP-build runner executed under several OMP_NUM_THREADS",
                text="Each generated history (load, surplus / anisotropic refinement, update, construction, merge, coefficient overwrite) is executed on larger grids by a runner linked against the serial build and by the same runner linked against the OpenMP build with "
                     "OMP_NUM_THREADS = 1 and two values from {2,3,5,7,16,48}; point sets, orders, index sets, sparse patterns and candidate lists must be identical (hashes of the exact data), coefficients, evaluations, integrals and weights equal to 1e-10 relative. Exploration; "
                     "only outcome differences are observable.",
                note="Trusted base: the serial build as reference, the harness. Races whose effect is masked (e.g. by a final sort) or needs a rare interleaving are not found."),
    "C18": dict(technique="property-based testing (rapidcheck, structure-aware byte decoder) of the threaded addons under ThreadSanitizer, with a logged model callback (exactly-once, per-id overlap flag, budget count), generated latencies and a watchdog for termination",
                text="Parallel constructSurrogate (tolerance and anisotropic overloads) and the threaded loadNeededValues (needed / overwrite, array and vector models) are run on generated grids with generated budgets (below, at and above the candidate pool, the worker count and the number of "
                     "already loaded points), 1-8 workers, batches 1-4 and per-call latency scripts. The model log must show no point evaluated twice, no two overlapping calls with one thread id and at most max_num_points samples; the call must return; every loaded point must carry "
                     "the value computed for its coordinate and the surrogate must reproduce it; ThreadSanitizer must stay silent. Exploration.",
                note="Trusted base: ThreadSanitizer, the harness. A reproducible watchdog hit (three isolated replays) is reported as a deadlock."),
    "C12": dict(technique="property-based testing (rapidcheck, structure-aware byte decoder) of generated multisets of const calls run from 2-8 threads under ThreadSanitizer, with a sequential pre-pass as the reference for every result",
                text="For generated grid states of all families, generated per-thread lists of const calls (evaluate*, weights, integrate, differentiate, hierarchical functions, getters, polynomial space, anisotropic estimate, write, copy construction) are released together "
                     "from 2-8 threads; ThreadSanitizer must stay silent and every call must return bitwise what it returns when run alone. Schedules are sampled, not enumerated. Exploration.",
                note="Trusted base: ThreadSanitizer's happens-before race detection, the harness. Interleaving-specific failures (no data race, wrong result only under one schedule) can be missed."),
    "C14": dict(technique="property-based testing (rapidcheck, structure-aware byte decoder) over a misuse catalogue transcribed from the documented throws-clauses: exception-type oracle, bitwise digest-before == digest-after (or empty), continuation against a pristine copy; ASan/UBSan, watchdog",
                text="Grid states from generated histories (empty, fresh, loaded, pending refinement, active construction, zero outputs; all families) receive one generated violation of a documented throws-clause (make*/update/refine/estimate/candidates/load*/set*/get* "
                     "with wrong sizes, ranges, grid types or call order; unreadable files and valid files of the state itself with a damaged documented header or trailer field, ascii and binary, stream and file). The call must throw std::invalid_argument or "
                     "std::runtime_error, the object must afterwards be empty (failed make/read only) or bitwise unchanged, and must then behave exactly like a pristine copy under a generated continuation. Exploration.",
                note=_TB + " Only clauses announced by the documentation are exercised; arbitrary corruption of file bodies is outside the property."),
    "C11": dict(technique="property-based testing (rapidcheck, structure-aware byte decoder): observational digest equality / restriction after every copy route, bitwise independence under generated mutation scripts, ASan for shared state",
                text="Source grids from generated histories are copied through the copy constructor, assignment onto a used grid, copyGrid and copyGrid with an output sub-range (including -1 and a beyond-range end); the copy's digest must equal the (restricted) digest of the source, "
                     "a generated mutation script on either side must leave the other side bitwise unchanged, and range copies taken during construction must stay the restriction of the source after a common continuation. Exploration.",
                note=_TB),
    "C09": dict(technique="property-based testing (rapidcheck, structure-aware byte decoder): differential against a batch-loaded reference grid plus a permutation-vs-permutation metamorphic relation; ASan/UBSan",
                text="For generated specs (nested rules of all families) a target set is taken from a deeper or stably refined reference grid loaded in one batch; the same samples are delivered through loadConstructedPoints under two generated schedules "
                     "(order, batch partition, interleaved candidate queries). After finishConstruction each run must hold exactly the target points with the delivered values (bitwise), its surrogate must equal the reference and the other schedule, and candidate lists must not contain loaded points. Exploration.",
                note=_TB),
    "C08": dict(technique="stateful property-based testing (rapidcheck, structure-aware byte decoder): limits model + 1-D reference node sets built from 1-D grids of depth = limit, metamorphic check of the -1 entries, per-case watchdog for termination; ASan/UBSan",
                text="Generated limits vectors (entries -1,0..3) are supplied at make time or by later calls, replaced, cleared or omitted, across generated sequences of update / anisotropic and surplus refinement / construction-candidate calls on all families and depth types; "
                     "getLevelLimits() must follow the model, every point that appears while limits are in force must lie on 1-D nodes of level <= limit, -1 must equal an unreachable limit, and every call must return (a reproducible watchdog hit is a violation). Exploration.",
                note=_TB + " A hang is reported only if the minimised case exceeds a 30 s budget in three isolated replays (normal cost < 50 ms)."),
    "C07": dict(technique="stateful property-based testing (rapidcheck, structure-aware byte decoder) against a reference model (coordinate sets + coordinate->value dictionary) and an independent re-evaluation of the classic surplus rule; ASan/UBSan",
                text="Generated sequences of load/reload/refine/update/merge/clear calls on all grid families are executed against the library and a reference model; after every step the loaded/needed sets must be duplicate-free, disjoint and follow the documented set algebra, "
                     "every value must stay attached (bitwise) to the coordinates it was supplied for, refinement/update must leave loaded points, values and surrogate bitwise unchanged, and classic surplus refinement of local polynomial and wavelet grids must propose exactly "
                     "the admissible children (coordinate-based hierarchy model, level limits, scale correction through both overloads, tolerances placed in gaps between criteria). Exploration.",
                note=_TB + " For piece-wise constant (order 0) local polynomials the children are taken from the library's RuleLocal index functions."),
    "C04": dict(technique="property-based testing (rapidcheck, structure-aware byte decoder): differential oracles between the documented routes to the same quantity, poisoned output buffers, ASan/UBSan",
                text="For generated grids and histories (pending/merged refinement, partial construction, coefficient overwrite) and generated batches of points (nodes, support boundaries, block-size boundaries) eight documented identities are checked: "
                     "evaluate vs weights x values, vs coefficients x hierarchical functions, vs evaluateBatch/evaluateFast; sparse vs dense hierarchical matrix; zero outside the reported support; integrate vs quadrature and basis integrals; "
                     "differentiate vs differentiation weights through all overloads; set/get coefficients round trip. Exploration.",
                note=_TB),
    "C01": dict(technique="property-based testing (rapidcheck, structure-aware byte decoder): stateful histories against a coordinate->value reference dictionary, nodal round-trip oracle, ASan/UBSan",
                text="Random grids (nested rules of all five families) are driven through generated load/refine/update/merge/construction histories; after every step that changes loaded data evaluate, evaluateBatch and evaluateFast "
                     "must return, at every loaded point, the value the harness supplied for that coordinate, within a data-derived rounding tolerance. Local polynomial grids are asserted when a coordinate-based hierarchy model confirms parent-completeness. Exploration.",
                note=_TB),
    "C06": dict(technique="property-based testing (rapidcheck over a structure-aware byte decoder) with round-trip, byte-identity, cross-format and continuation oracles under ASan/UBSan",
                text="Random grid specifications and operation histories (all five families, transforms, limits, pending refinement, active construction, custom rules, zero outputs, empty grid) are written and read through all four routes; "
                     "the restored grid must have a bitwise identical observable digest, re-write to identical bytes, agree across formats, and behave identically under a generated continuation. Exploration, not proof.",
                note=_TB),
}

# ---- C15 (DREAM)


PROPS.update({
    "C15": grid_prop(50000, 2000000, size=400, floors={
        "idx-draw:1.0": 0.10, "k-draw:1.0": 0.05, "idx-draw:0.0": 0.10, "accepted+rejected": 0.25,
        "form:log": 0.3, "form:reg": 0.3, "upd:uniform": 0.1, "upd:gaussian": 0.1, "upd:user": 0.1, "upd:dist-none": 0.03, "upd:default-no_update": 0.05,
        "weight:percent": 0.15, "weight:scripted": 0.15, "weight:const_one": 0.05, "weight:percent0": 0.05,
        "dom:hypercube": 0.1, "dom:half-space": 0.08, "dom:initial-states-only": 0.03, "dom:own-box": 0.08,
        "split:in-burnup": 0.1, "split:in-collect": 0.1, "accept:sticky": 0.2, "accept:counted": 0.4,
        "tie:equal-pdf,u=1": 0.02, "iter:all-outside": 0.03, "chains:6": 0.08, "dims:3": 0.2}),
})
PROPS["C15"]["assumptions"] = [
    "sanitizers (ASan+UBSan) see every memory error on the executed paths",
    "the i-th inside() call of an iteration carries the proposal of chain i (one call per proposal is documented; the chain order is confirmed case by case by the proposal oracle s_i + w (s_k - s_j) + update)",
    "accept:counted cases only: the sampler takes one uniform draw for each in-domain proposal whose pdf does not exceed the current one and none for the others "
    "(accept:sticky cases make no assumption on number or order of the draws)",
    "the accept rule is evaluated in the documented floating point form (ratio >= u, difference >= log u); cases where an equivalent form would decide differently are abandoned (label ambiguous-tie)",
]

META.update({
    "C15": dict(technique="property-based testing (rapidcheck, structure-aware byte decoder) with a fully scripted environment: pdf, domain test, update, weight and the uniform generator are harness callbacks that log every call "
                          "and drive an on-line reference model of the chains; ASan/UBSan",
                text="Generated DREAM runs (1-6 chains, 1-3 dimensions, regular and log form, all built-in and user update rules, constant and scripted differential weights, burn-up/collect 0-6, optional split into two calls) are executed with a "
                     "uniform generator scripted from the case bytes whose palette contains exactly 0 and exactly 1. At the start of every iteration and after every call the library's chain state and cached pdf values must equal (bitwise) the "
                     "state produced by the stated accept rule from the logged proposals, pdf values and the scripted uniform of that iteration; every proposal must be s_i + w (s_k - s_j) + update for chain indices in range; the pdf batch must be "
                     "exactly the proposals that passed the domain test; every recorded sample must satisfy the domain test and carry the pdf of that sample; the history must grow by collect x chains; the acceptance rate must equal the "
                     "number of accepted proposals in collected iterations over the number of recorded samples; a run split into two consecutive calls must equal the single run bitwise under the same stream. Exploration.",
                note=_TB + " Index draws are classified (labels, non-triviality, known-finding exclusion only) by the draw order of tsgDreamSample.hpp."),
})


# ---- C19 / C20 (optimization)

_ASSUME = ["sanitizers (ASan+UBSan) see every memory error on the executed paths",
           "the harness objectives, gradients, exact projections, domain tests and the reference tracker of the best positions are correct (pure functions of the case bytes)"]

PROPS.update({
    # one C19 case = one problem run for every cap 0..N (N <= 40) in both variants: ~20-80 library calls
    "C19": grid_prop(20000, 800000, assumptions=_ASSUME,
                        floors={"nt:cap-in-linesearch-after-accept": 0.2, "obj:quad-diag": 0.1, "obj:quad-rot": 0.1, "obj:rosenbrock": 0.08, "obj:trig": 0.08,
                                "proj:none-overload": 0.08, "proj:identity": 0.04, "proj:box": 0.1, "proj:ball": 0.08, "proj:halfspace": 0.08,
                                "cstep:below-2/L": 0.2, "cstep:above-2/L": 0.1, "cstep:tolerance-reached": 0.05, "stop:tolerance": 0.05}),
    "C20": grid_prop(50000, 2000000, assumptions=_ASSUME,
                        floors={"nt:outside+multi-call": 0.2, "edits": 0.3, "dom:box": 0.08, "dom:halfspace": 0.08, "dom:nothing": 0.03, "dom:hole": 0.05,
                                "edit:clearCache": 0.05, "edit:clearBestParticles": 0.05, "edit:setParticlePositions": 0.05, "edit:setParticleVelocities": 0.03,
                                "edit:setBestParticlePositions": 0.05, "split-checked": 0.3}),
})

META.update({
    "C19": dict(technique="property-based testing (rapidcheck, structure-aware byte decoder) with a callback log of every objective / gradient / projection call; exhaustive sweep of the iteration cap 0..N per generated problem; "
                          "independent re-evaluation of the descent inequality and of the constant-step recurrence; ASan/UBSan",
                text="Generated problems (convex quadratics with condition number up to 1e4, Rosenbrock-like, non-convex trigonometric; identity, box, ball and half-space projections; feasible starts, step parameters, tolerances) "
                     "are run through the adaptive GradientDescent for every iteration cap 0..N: the number of trial points never exceeds the cap, the returned state is the start or a projection output and is the last trial point that "
                     "passed the recomputed descent inequality, its objective is not above the start and not above the result of any smaller cap (tolerance of the descent test per accepted step); the constant-step overload must perform exactly "
                     "min(cap, first step reaching the tolerance) steps and return the harness recurrence bitwise. Exploration.",
                note=_TB + " The step-size schedule is mirrored from tsgGradientDescent.cpp and guarded by the logged projection input."),
    "C20": dict(technique="stateful property-based testing (rapidcheck, structure-aware byte decoder) with logged domain / objective callbacks, a scripted random stream, a reference tracker of personal and swarm bests, "
                          "and a metamorphic split oracle (n then m iterations == n+m); ASan/UBSan",
                text="Generated swarms (1-8 particles, 1-3 dims; box, half-space, hole, empty and full domains; sphere, shifted sphere and multi-modal objectives through the batch interface and the single-point wrapper) are advanced by "
                     "several ParticleSwarm calls with state edits in between (clearCache, clearBestParticles, manual positions / velocities / best positions, objective switch): every row handed to the objective is inside the domain, every "
                     "best-known position is a row that was evaluated inside the domain (or stays unset), the swarm best equals the minimum over all in-domain evaluations since the last reset and never increases, and splitting a call "
                     "into two with the same random stream gives bitwise identical positions, velocities and bests. Exploration.",
                note=_TB + " The cached objective values are private; their coherence is observed through the best positions of later calls."),
})


# ---- C02 / C03 (exactness)

_ASSUME_0203 = ["sanitizers (ASan+UBSan) see every memory error on the executed paths",
           "the harness reference mathematics (exact moments of the documented weight functions in long double, own inverse of the linear maps, "
           "Fourier point index -> frequency convention of DESIGN Appendix A, own 80-point Gauss-Legendre reference for the exotic weights) is correct",
           "generalised Gauss-Hermite is read with the weight |x-a|^alpha exp(-b (x-a)^2) (tsgEnumerates.hpp prints (x-a)^alpha, which is not a weight function for odd or fractional alpha)",
           "clenshaw-curtis-zero is asserted on polynomials vanishing at the boundary only (DESIGN 2.9); exotic tables are asserted without a domain transform (documented on [-1,1])"]

_GLOBAL_RULES_0203 = ["chebyshev", "chebyshev-odd", "clenshaw-curtis", "clenshaw-curtis-zero", "fejer2", "gauss-chebyshev1", "gauss-chebyshev1-odd", "gauss-chebyshev2", "gauss-chebyshev2-odd",
                 "gauss-gegenbauer", "gauss-gegenbauer-odd", "gauss-hermite", "gauss-hermite-odd", "gauss-jacobi", "gauss-jacobi-odd", "gauss-laguerre", "gauss-laguerre-odd",
                 "gauss-legendre", "gauss-legendre-odd", "gauss-patterson", "leja", "leja-odd", "max-lebesgue", "max-lebesgue-odd", "min-delta", "min-delta-odd", "min-lebesgue",
                 "min-lebesgue-odd", "rleja", "rleja-double2", "rleja-double4", "rleja-odd", "rleja-shifted", "rleja-shifted-double", "rleja-shifted-even"]
_SEQ_RULES_0203 = ["leja", "max-lebesgue", "min-delta", "min-lebesgue", "rleja", "rleja-shifted"]
_TYPES_0203 = ["level", "curved", "hyperbolic", "iptotal", "qptotal", "ipcurved", "qpcurved", "iphyperbolic", "qphyperbolic", "tensor", "iptensor", "qptensor"]

def _floors_0203(base, rule_floor, seq_floor, type_floor):
    f = dict(base)
    for r in _GLOBAL_RULES_0203: f["rule:" + r] = rule_floor     # DESIGN: every rule >= 0.5 % of the Global cases (Global cases are ~55 % of all)
    for r in _SEQ_RULES_0203: f["seq:" + r] = seq_floor
    for t in _TYPES_0203: f["type:" + t] = type_floor            # DESIGN: every depth type >= 3 %
    return f

PROPS.update({
    "C02": grid_prop(50000, 2000000, assumptions=_ASSUME_0203, floors=_floors_0203({
        "fam:global": 0.4, "fam:sequence": 0.1, "fam:fourier": 0.1, "fam:localp": 0.02, "fam:wavelet": 0.02,
        "rule:custom-gl": 0.008, "rule:exotic": 0.015, "transform": 0.27, "limits": 0.12, "aniso": 0.12, "alpha-beta": 0.03, "zero-boundary": 0.015,
        "hist:refined": 0.08, "state:pending": 0.015, "outs:0": 0.1, "d:2": 0.15, "d:3": 0.12}, 0.003, 0.012, 0.03)),
    "C03": grid_prop(30000, 1000000, assumptions=_ASSUME_0203, floors=_floors_0203({
        "fam:global": 0.3, "fam:sequence": 0.08, "fam:fourier": 0.08, "fam:localp": 0.08, "fam:wavelet": 0.07,
        "rule:custom-gl": 0.006, "rule:exotic": 0.01, "non-nested": 0.08, "transform": 0.2, "limits": 0.12, "aniso": 0.1, "zero-boundary": 0.015,
        "lp:localp": 0.03, "lp:semi-localp": 0.015, "lp:localp-boundary": 0.015, "lp:order-1": 0.007, "lp:order1": 0.015, "lp:order2": 0.008, "lp:order3": 0.008, "lp:order4": 0.007, "lp:order5": 0.007,
        "hist:refined": 0.05, "wave:o1": 0.03, "wave:o3": 0.03, "x:non-node": 0.5, "x:node": 0.5, "x:boundary": 0.3, "x:near-node": 0.15, "d:2": 0.15, "d:3": 0.12}, 0.002, 0.01, 0.02)),
})

META.update({
    "C02": dict(technique="property-based testing (rapidcheck, structure-aware byte decoder) against closed-form moments of the documented weight functions evaluated in long double "
                          "(Jacobi three-term recurrence, Gamma functions, binomially expanded affine maps, own Gauss-Legendre reference for exotic weights); ASan/UBSan",
                text="Generated Global (all 35 built-in rules with alpha/beta from a palette, an in-memory custom Gauss-Legendre table, four exotic tables from getExoticQuadrature), Sequence and Fourier grids "
                     "(d <= 3, all 12 depth types, anisotropic weights, level limits, linear transforms, 0-3 outputs, optionally one update/refinement step so that the tensor set is a general lower set) are asked for "
                     "getGlobalPolynomialSpace(false); for every listed multi-index (all up to 300, otherwise all maximal ones plus a sample) sum_i w_i x_i^p must equal the exact moment of the weight function documented for the rule "
                     "on the transformed domain; the weights must sum to the measure of the domain; for Fourier grids every mode attached to a grid point must integrate to delta_k0 * volume; integrate() must equal the weighted sum "
                     "of the loaded values (all five families). clenshaw-curtis-zero is asserted on polynomials that vanish at the boundary. Exploration.",
                note=_TB + " Tolerance 5e-9 (5e-8 for the numerically constructed exotic tables) times sum_i |w_i phi(x_i)| floored by sum|w| * prod R_j^p_j; largest ratio observed on the pinned tree is recorded in the evidence."),
    "C03": dict(technique="property-based testing (rapidcheck, structure-aware byte decoder): members of the declared space are loaded as separate outputs and compared, at generated points, with their exact values "
                          "evaluated in long double; ASan/UBSan",
                text="Generated grids of all five families (Global incl. non-nested, custom and exotic tables; Sequence; Fourier; LocalPolynomial of order != 0 with localp / semi-localp / localpb and depth >= 1; Wavelet order 1/3; "
                     "d <= 3, all depth types, anisotropic weights, level limits, linear transforms) get 1-8 members of their space as outputs: monomials of getGlobalPolynomialSpace(true) (maximal and arbitrary ones), cos/sin modes attached to "
                     "Fourier grid points, affine functions in the directions whose level limit is not 0. At 3-6 points (interior, grid nodes, points 1e-13..1e-6 next to a node, domain boundary) evaluate(x) and "
                     "sum_i w_i(x) phi(x_i) with w = getInterpolationWeights(x) must equal phi(x), and the weights must sum to one. clenshaw-curtis-zero is asserted on the span of its documented basis (DESIGN 2.9). Exploration.",
                note=_TB + " Wavelet grids with a linear transform: evaluation points whose library-style inverse image rounds outside [-1,1] are excluded by construction (known finding *-wavelet-transformed-boundary, counted in the evidence). "
                               "Fourier interpolation weights within ~2e-7 of a node come from a guarded closed form and are compared with tolerance 1e-6 instead of 1e-9."),
})


# ---- C05 / C10 (derivatives, transforms)

_ASSUME_0510 = ["sanitizers (ASan+UBSan) see every memory error on the executed paths",
           "the harness maps (engine/props_c0510/maps.hpp: documented affine maps per rule family, Jacobi/Laguerre/Hermite quadrature factors, normalised truncated arcsin series with a bisection inverse) "
           "and the member functions of the exact-space oracle (long double) are correct",
           "tolerances are |a-b| <= tau * S with data-derived scales S (sum |w_i||v_i| of interpolation / differentiation weights, floored by max|v|); the largest error/tolerance ratio seen is recorded in the evidence"]

PROPS.update({
    # one C05 case = one grid history (<= 600 points) + twin, 3-6 points x (8 d + 3) evaluations
    "C05": grid_prop(50000, 1500000, size=400, assumptions=_ASSUME_0510 + [
        "finite differences are taken inside cells that contain no break point of any basis function (dyadic lattice of the finest node spacing; the 1025-point table of the cubic wavelets; triadic cell edges for order 0)"],
        floors={"fam:localp": 0.2, "fam:wavelet": 0.08, "fam:fourier": 0.10, "fam:global": 0.08, "fam:sequence": 0.06,
                "lp:o-1": 0.03, "lp:o0": 0.03, "lp:o1": 0.03, "lp:o2": 0.03, "lp:o3": 0.03, "lp:o4": 0.03, "lp:o5": 0.03, "wave:o1": 0.03, "wave:o3": 0.03,
                "x:node": 0.3, "exact:affine": 0.2, "exact:monomials": 0.15, "exact:trig-modes": 0.1, "hist:refined": 0.2, "transform:spec": 0.15, "fd:compared": 0.9, "d:2": 0.15, "d:3": 0.15}),
    # one C10 case = pair of grids (<= 200 points), all points compared, 3-6 interior points, nodes, boundary points, 4 probes beyond the bounds
    "C10": grid_prop(50000, 1500000, size=400, assumptions=_ASSUME_0510,
        floors={"dom:[-1,1]": 0.3, "dom:fourier[0,1]": 0.10, "dom:laguerre[0,inf)": 0.10, "dom:hermite(-inf,inf)": 0.10, "weight:jacobi-type": 0.06,
                "mode:linear": 0.4, "mode:conformal": 0.08, "mode:conformal+linear": 0.08, "fam:localp": 0.06, "fam:sequence": 0.05, "fam:wavelet": 0.05, "fam:global": 0.3,
                "ab:generated": 0.3, "ab:palette": 0.15, "ab:shift>=rate": 0.05, "x:boundary": 0.4, "d:2": 0.15, "d:3": 0.15}),
})

META.update({
    "C05": dict(technique="property-based testing (rapidcheck, structure-aware byte decoder): exact-space oracle (analytic gradients of loaded members of the reproduced space), "
                          "Richardson-extrapolated 4-th order central differences of evaluate(), metamorphic chain-rule relation between a canonical and a linearly transformed twin grid; ASan/UBSan",
                text="Generated grids (all five families; Global incl. non-nested, unbounded and custom rules; local polynomials of orders -1,0..5 on all four rules; wavelets of order 1 and 3; d<=3, 1-3 outputs) "
                     "are taken through short load/refine histories and paired with a twin that differs only by a linear domain transform. At generated points (strictly interior, inside a cell free of break points of the local bases; "
                     "or exactly at interior grid nodes) differentiate() must (a) equal the analytic gradient when a member of the reproduced space is loaded (monomials of getGlobalPolynomialSpace(true), vanishing polynomials for "
                     "clenshaw-curtis-zero, trigonometric modes of the Fourier frequency set, affine functions for wavelets and parent-complete boundary-including local polynomials of order != 0), (b) match Richardson central "
                     "differences of evaluate() for generic data, the two step sizes having to agree first, and (c) satisfy differentiate_B(x) = differentiate_A(g(x)) g' between the twins. Exploration.",
                note=_TB + " Conformal maps are never used (the API documents no derivative under them). Local polynomial grids whose hierarchy is not parent-complete are exempt from oracle (a) only."),
    "C10": dict(technique="property-based testing (rapidcheck, structure-aware byte decoder): metamorphic pair canonical grid / transformed grid with identical values, "
                          "independent long-double re-implementation of the documented maps, Jacobians, quadrature factors and of the truncated-arcsin conformal map with a bisection inverse; ASan/UBSan",
                text="For generated specifications balanced over the canonical domains ([-1,1] rules of all families, Chebyshev/Gegenbauer/Jacobi weights, Gauss-Laguerre, Gauss-Hermite, Fourier) and generated transforms "
                     "(a<b from a palette or continuous; shift and positive rate for the unbounded rules; asin truncations 0..6; conformal + linear in both call orders) a canonical grid A and a transformed grid B receive the same values. "
                     "B's needed/loaded/all points must be the mapped points of A; evaluate_B(x) must equal evaluate_A(map^-1 x) at interior points, nodes (and the loaded values for interpolatory rules) and domain boundaries; "
                     "differentiate scales by dt/dx; getHierarchicalSupport scales by the Jacobian; quadrature weights, integrate() and integrateHierarchicalFunctions() scale by the documented factor "
                     "(((b-a)/2)^(alpha+beta+1), (b-a), b^-(1+alpha), b^-(1+alpha)/2; product of g'(t) for the conformal map); getDomainInside() accepts grid and interior points and rejects points beyond the bounds by relative margins 1e-9..10 "
                     "(Hermite accepts everything, Laguerre rejects x<a only). Exploration.",
                note=_TB + " Grid points that the forward map rounds one ulp beyond a bound are counted, not asserted, for getDomainInside (the statement allows rounding at the boundary itself)."),
})


# ---- C16 (tasgrid)

_CMD = {  # command floors: fraction of scripts that contain at least one accepted invocation of the command
    "cmd:loadvalues": 0.3, "cmd:evaluate": 0.04, "cmd:integrate": 0.03, "cmd:differentiate": 0.02, "cmd:getcoefficients": 0.02, "cmd:setcoefficients": 0.04,
    "cmd:getpoints": 0.03, "cmd:getneeded": 0.03, "cmd:getquadrature": 0.03, "cmd:getinterweights": 0.03, "cmd:getdiffweights": 0.02, "cmd:gethsupport": 0.03,
    "cmd:evalhierarchyd": 0.03, "cmd:evalhierarchys": 0.015, "cmd:getpoly": 0.015, "cmd:getanisotropy": 0.015, "cmd:getpointsindexes": 0.02, "cmd:getneededindexes": 0.003,
    "cmd:refine": 0.02, "cmd:refineaniso": 0.02, "cmd:refinesurp": 0.02, "cmd:cancelrefine": 0.02, "cmd:mergerefine": 0.01, "cmd:makeupdate": 0.03, "cmd:setconformal": 0.02,
    "cmd:getconstructpnts": 0.05, "cmd:loadconstructed": 0.015, "cmd:makequadrature": 0.04, "cmd:summary": 0.02, "cmd:using-construct": 0.02,
    "cmd:makeglobal": 0.08, "cmd:makesequence": 0.08, "cmd:makelocalpoly": 0.08, "cmd:makewavelet": 0.08, "cmd:makefourier": 0.08,
}
_FLOORS_C16 = dict(_CMD, **{"fmt:ascii": 0.4, "fmt:binary": 0.4, "in:ascii-matrix": 0.3, "in:binary-matrix": 0.3, "name:short": 0.3, "nontrivial": 0.15,
                        "construct:with-data": 0.02, "load:refinement": 0.008, "load:reload": 0.03, "refine:scale": 0.002, "refine:limits": 0.01,
                        "make:custom": 0.008, "make:conformal": 0.04, "make:transform": 0.1, "make:limits": 0.1, "make:aniso": 0.08})

PROPS.update({
    "C16": grid_prop(1500, 60000, size=400, runner_env={"VERIF_TASGRID": ("asan", "tasgrid")}, floors=_FLOORS_C16,
                        quick=dict(cases=1500, size=400, wall=900, case_budget=60),
                        thorough=dict(cases=60000, size=500, wall=3000, case_budget=60),
                        assumptions=["sanitizers (ASan+UBSan) see every memory error on the executed paths of the tool and of the in-process mirror",
                                     "the mirror (DESIGN.md Appendix C) transcribes the documented meaning of every command correctly: Doxygen/InterfaceCLI.md, `tasgrid <command> help`, and the "
                                     "API documentation of the corresponding methods; the harness matrix readers/writers implement the documented matrix file format",
                                     "the mirror runs the same library build as the tool, so a library defect that affects both sides equally is invisible here (it belongs to C01-C14)"]),
})

META.update({
    "C16": dict(technique="differential property-based testing (rapidcheck, structure-aware byte decoder) of the real tasgrid executable (ASan+UBSan build, one process per invocation) against an "
                          "in-process mirror that executes the documented API call sequence; independent readers/writers for both matrix file formats; observable-digest and byte comparison of grid files",
                text="Generated scripts of 2-8 tasgrid invocations share one grid file: a make command of any family (dimensions, outputs, depth, type, rule, order, alpha/beta, anisotropy, level-limit, transform, "
                     "conformal and custom-rule files) followed by a state-aware choice among loadvalues, setcoefficients, refine/refineaniso/refinesurp (types, minimum growth, output, tolerance, criteria, limits, "
                     "scale corrections), cancelrefine, mergerefine, makeupdate, setconformal, getconstructpnts, loadconstructed, makequadrature, a new make, and the read-only commands (getpoints, getneeded, "
                     "getquadrature, getinterweights, getdiffweights, evaluate, integrate, differentiate, getcoefficients, evalhierarchyd/s, gethsupport, getpoly, getanisotropy, point indexes, summary, "
                     "using-construct), with long and short option names, ASCII and binary grid files and ASCII and binary input and output matrices. After every invocation the tool must not crash, hang or report a "
                     "sanitizer error; must accept what the help text and the API accept; every matrix it writes (-outputfile in both formats, -print) must equal the mirror's array to 1e-13 relative; the grid file "
                     "it writes must read back to the mirror's observable digest, re-write to the mirror's bytes and be byte-identical to the file the mirror writes; read-only commands must leave the grid file "
                     "untouched. Exploration.",
                note=_TB + " The tool and the mirror share the library build; process start-up dominates the cost (about 15 ms per invocation), which bounds the number of scripts per run."),
})


# work-in-progress fragments (developer aid): props_extra/<name>.py may define PROPS / META dicts that are merged in
import glob as _glob, importlib.util as _ilu, os as _os
for _f in sorted(_glob.glob(_os.path.join(_os.path.dirname(_os.path.abspath(__file__)), "props_extra", "*.py"))):
    _spec = _ilu.spec_from_file_location("props_extra_" + _os.path.basename(_f)[:-3], _f); _m = _ilu.module_from_spec(_spec); _spec.loader.exec_module(_m)
    PROPS.update(getattr(_m, "PROPS", {})); META.update(getattr(_m, "META", {}))

# Budgets (cases per run). Quick tiers are sized from the throughput measured on the idle 16-core sandbox so that every quick check generates for roughly
# 40-90 s (a quick tier of a few seconds stays green on broken trees: several seeded changes need 10^4-10^5 cases of their class).
_QUICK = {"C01": 100000, "C02": 400000, "C03": 200000, "C04": 16000, "C05": 60000, "C06": 45000, "C07": 150000, "C08": 150000, "C09": 40000, "C10": 70000, "C11": 120000,
          "C12": 60000, "C13": 280, "C14": 300000, "C15": 1200000, "C16": 10000, "C17": 10000, "C18": 160000, "C19": 600000, "C20": 1200000}
_THOROUGH = {"C12": 1000000, "C13": 3500, "C17": 150000, "C18": 300000, "C16": 150000, "C02": 6000000, "C03": 4000000, "C07": 3000000, "C08": 3000000, "C14": 6000000,
             "C15": 12000000, "C19": 6000000, "C20": 12000000, "C09": 900000}
for _id, _n in _QUICK.items(): PROPS[_id]["quick"]["cases"] = _n
for _id, _n in _THOROUGH.items(): PROPS[_id]["thorough"]["cases"] = _n
for _id in ("C12", "C18"): PROPS[_id]["quick"]["shards"] = 14; PROPS[_id]["schedule_dependent"] = True   # an outcome that differs between two runs of the same input IS the violation for properties about schedules
PROPS["C13"]["thorough"].update(shards=8, case_budget=120); PROPS["C17"]["thorough"].update(shards=12, case_budget=120)

# coverage-guided phase (libFuzzer, thorough tier): the in-process properties of the ASan driver; C12/C18 (TSan), C13/C16/C17 (spawn processes) stay rapidcheck-only
FUZZED = ["C01", "C02", "C03", "C04", "C05", "C06", "C07", "C08", "C09", "C10", "C11", "C14", "C15", "C19", "C20"]
for _id in FUZZED: PROPS[_id].setdefault("fuzz", dict(workers=8, seconds=240, max_len=600))
for _id in FUZZED:
    if "libFuzzer" not in META[_id]["technique"]:
        META[_id]["technique"] += "; thorough tier adds coverage-guided fuzzing (libFuzzer with ASan/UBSan) over the same decoder and the same oracle"
