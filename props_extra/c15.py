"""C15 - DREAM sampling: memory-safe, in-domain, consistent books (work-in-progress fragment, merged by props_config.py)."""
import props_config as pc

PROPS = {
    "C15": pc.grid_prop(50000, 2000000, size=400, floors={
        "idx-draw:1.0": 0.10, "k-draw:1.0": 0.05, "idx-draw:0.0": 0.10, "accepted+rejected": 0.25,
        "form:log": 0.3, "form:reg": 0.3, "upd:uniform": 0.1, "upd:gaussian": 0.1, "upd:user": 0.1, "upd:dist-none": 0.03, "upd:default-no_update": 0.05,
        "weight:percent": 0.15, "weight:scripted": 0.15, "weight:const_one": 0.05, "weight:percent0": 0.05,
        "dom:hypercube": 0.1, "dom:half-space": 0.08, "dom:initial-states-only": 0.03, "dom:own-box": 0.08,
        "split:in-burnup": 0.1, "split:in-collect": 0.1, "accept:sticky": 0.2, "accept:counted": 0.4,
        "tie:equal-pdf,u=1": 0.02, "iter:all-outside": 0.03, "chains:6": 0.08, "dims:3": 0.2}),
}
PROPS["C15"]["assumptions"] = [
    "sanitizers (ASan+UBSan) see every memory error on the executed paths",
    "the i-th inside() call of an iteration carries the proposal of chain i (one call per proposal is documented; the chain order is confirmed case by case by the proposal oracle s_i + w (s_k - s_j) + update)",
    "accept:counted cases only: the sampler takes one uniform draw for each in-domain proposal whose pdf does not exceed the current one and none for the others "
    "(accept:sticky cases make no assumption on number or order of the draws)",
    "the accept rule is evaluated in the documented floating point form (ratio >= u, difference >= log u); cases where an equivalent form would decide differently are abandoned (label ambiguous-tie)",
]

META = {
    "C15": dict(technique="property-based testing (rapidcheck, structure-aware byte decoder) with a fully scripted environment: pdf, domain test, update, weight and the uniform generator are harness callbacks that log every call "
                          "and drive an on-line reference model of the chains; ASan/UBSan",
                text="Generated DREAM runs (1-6 chains, 1-3 dimensions, regular and log form, all built-in and user update rules, constant and scripted differential weights, burn-up/collect 0-6, optional split into two calls) are executed with a "
                     "uniform generator scripted from the case bytes whose palette contains exactly 0 and exactly 1. At the start of every iteration and after every call the library's chain state and cached pdf values must equal (bitwise) the "
                     "state produced by the stated accept rule from the logged proposals, pdf values and the scripted uniform of that iteration; every proposal must be s_i + w (s_k - s_j) + update for chain indices in range; the pdf batch must be "
                     "exactly the proposals that passed the domain test; every recorded sample must satisfy the domain test and carry the pdf of that sample; the history must grow by collect x chains; the acceptance rate must equal the "
                     "number of accepted proposals in collected iterations over the number of recorded samples; a run split into two consecutive calls must equal the single run bitwise under the same stream. Exploration.",
                note=pc._TB + " Index draws are classified (labels, non-triviality, known-finding exclusion only) by the draw order of tsgDreamSample.hpp."),
}
