"""Configuration fragment for C19 (GradientDescent) and C20 (ParticleSwarm); merged by props_config.py."""
import props_config as pc

_ASSUME = ["sanitizers (ASan+UBSan) see every memory error on the executed paths",
           "the harness objectives, gradients, exact projections, domain tests and the reference tracker of the best positions are correct (pure functions of the case bytes)"]

PROPS = {
    # one C19 case = one problem run for every cap 0..N (N <= 40) in both variants: ~20-80 library calls
    "C19": pc.grid_prop(20000, 800000, assumptions=_ASSUME,
                        floors={"nt:cap-in-linesearch-after-accept": 0.2, "obj:quad-diag": 0.1, "obj:quad-rot": 0.1, "obj:rosenbrock": 0.08, "obj:trig": 0.08,
                                "proj:none-overload": 0.08, "proj:identity": 0.04, "proj:box": 0.1, "proj:ball": 0.08, "proj:halfspace": 0.08,
                                "cstep:below-2/L": 0.2, "cstep:above-2/L": 0.1, "cstep:tolerance-reached": 0.05, "stop:tolerance": 0.05}),
    "C20": pc.grid_prop(50000, 2000000, assumptions=_ASSUME,
                        floors={"nt:outside+multi-call": 0.2, "edits": 0.3, "dom:box": 0.08, "dom:halfspace": 0.08, "dom:nothing": 0.03, "dom:hole": 0.05,
                                "edit:clearCache": 0.05, "edit:clearBestParticles": 0.05, "edit:setParticlePositions": 0.05, "edit:setParticleVelocities": 0.03,
                                "edit:setBestParticlePositions": 0.05, "split-checked": 0.3}),
}

META = {
    "C19": dict(technique="property-based testing (rapidcheck, structure-aware byte decoder) with a callback log of every objective / gradient / projection call; exhaustive sweep of the iteration cap 0..N per generated problem; "
                          "independent re-evaluation of the descent inequality and of the constant-step recurrence; ASan/UBSan",
                text="Generated problems (convex quadratics with condition number up to 1e4, Rosenbrock-like, non-convex trigonometric; identity, box, ball and half-space projections; feasible starts, step parameters, tolerances) "
                     "are run through the adaptive GradientDescent for every iteration cap 0..N: the number of trial points never exceeds the cap, the returned state is the start or a projection output and is the last trial point that "
                     "passed the recomputed descent inequality, its objective is not above the start and not above the result of any smaller cap (tolerance of the descent test per accepted step); the constant-step overload must perform exactly "
                     "min(cap, first step reaching the tolerance) steps and return the harness recurrence bitwise. Exploration.",
                note=pc._TB + " The step-size schedule is mirrored from tsgGradientDescent.cpp and guarded by the logged projection input."),
    "C20": dict(technique="stateful property-based testing (rapidcheck, structure-aware byte decoder) with logged domain / objective callbacks, a scripted random stream, a reference tracker of personal and swarm bests, "
                          "and a metamorphic split oracle (n then m iterations == n+m); ASan/UBSan",
                text="Generated swarms (1-8 particles, 1-3 dims; box, half-space, hole, empty and full domains; sphere, shifted sphere and multi-modal objectives through the batch interface and the single-point wrapper) are advanced by "
                     "several ParticleSwarm calls with state edits in between (clearCache, clearBestParticles, manual positions / velocities / best positions, objective switch): every row handed to the objective is inside the domain, every "
                     "best-known position is a row that was evaluated inside the domain (or stays unset), the swarm best equals the minimum over all in-domain evaluations since the last reset and never increases, and splitting a call "
                     "into two with the same random stream gives bitwise identical positions, velocities and bests. Exploration.",
                note=pc._TB + " The cached objective values are private; their coherence is observed through the best positions of later calls."),
}
