"""Configuration fragment for C05 (differentiate) and C10 (domain transforms); merged by props_config.py."""
import props_config as pc

PROPS = {
    "C05": pc.grid_prop(50000, 1500000, size=400, floors={}),
    "C10": pc.grid_prop(50000, 1500000, size=400, floors={}),
}
META = {
    "C05": dict(technique="property-based testing", text="wip", note=pc._TB),
    "C10": dict(technique="property-based testing", text="wip", note=pc._TB),
}
