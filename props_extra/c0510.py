"""Configuration fragment for C05 (differentiate) and C10 (domain transforms); merged by props_config.py."""
import props_config as pc

_ASSUME = ["sanitizers (ASan+UBSan) see every memory error on the executed paths",
           "the harness maps (engine/props_c0510/maps.hpp: documented affine maps per rule family, Jacobi/Laguerre/Hermite quadrature factors, normalised truncated arcsin series with a bisection inverse) "
           "and the member functions of the exact-space oracle (long double) are correct",
           "tolerances are |a-b| <= tau * S with data-derived scales S (sum |w_i||v_i| of interpolation / differentiation weights, floored by max|v|); the largest error/tolerance ratio seen is recorded in the evidence"]

PROPS = {
    # one C05 case = one grid history (<= 600 points) + twin, 3-6 points x (8 d + 3) evaluations
    "C05": pc.grid_prop(50000, 1500000, size=400, assumptions=_ASSUME + [
        "finite differences are taken inside cells that contain no break point of any basis function (dyadic lattice of the finest node spacing; the 1025-point table of the cubic wavelets; triadic cell edges for order 0)"],
        floors={"fam:localp": 0.2, "fam:wavelet": 0.08, "fam:fourier": 0.10, "fam:global": 0.08, "fam:sequence": 0.06,
                "lp:o-1": 0.03, "lp:o0": 0.03, "lp:o1": 0.03, "lp:o2": 0.03, "lp:o3": 0.03, "lp:o4": 0.03, "lp:o5": 0.03, "wave:o1": 0.03, "wave:o3": 0.03,
                "x:node": 0.3, "exact:affine": 0.2, "exact:monomials": 0.15, "exact:trig-modes": 0.1, "hist:refined": 0.2, "transform:spec": 0.15, "fd:compared": 0.9, "d:2": 0.15, "d:3": 0.15}),
    # one C10 case = pair of grids (<= 200 points), all points compared, 3-6 interior points, nodes, boundary points, 4 probes beyond the bounds
    "C10": pc.grid_prop(50000, 1500000, size=400, assumptions=_ASSUME,
        floors={"dom:[-1,1]": 0.3, "dom:fourier[0,1]": 0.10, "dom:laguerre[0,inf)": 0.10, "dom:hermite(-inf,inf)": 0.10, "weight:jacobi-type": 0.06,
                "mode:linear": 0.4, "mode:conformal": 0.08, "mode:conformal+linear": 0.08, "fam:localp": 0.06, "fam:sequence": 0.05, "fam:wavelet": 0.05, "fam:global": 0.3,
                "ab:generated": 0.3, "ab:palette": 0.15, "ab:shift>=rate": 0.05, "x:boundary": 0.4, "d:2": 0.15, "d:3": 0.15}),
}

META = {
    "C05": dict(technique="property-based testing (rapidcheck, structure-aware byte decoder): exact-space oracle (analytic gradients of loaded members of the reproduced space), "
                          "Richardson-extrapolated 4-th order central differences of evaluate(), metamorphic chain-rule relation between a canonical and a linearly transformed twin grid; ASan/UBSan",
                text="Generated grids (all five families; Global incl. non-nested, unbounded and custom rules; local polynomials of orders -1,0..5 on all four rules; wavelets of order 1 and 3; d<=3, 1-3 outputs) "
                     "are taken through short load/refine histories and paired with a twin that differs only by a linear domain transform. At generated points (strictly interior, inside a cell free of break points of the local bases; "
                     "or exactly at interior grid nodes) differentiate() must (a) equal the analytic gradient when a member of the reproduced space is loaded (monomials of getGlobalPolynomialSpace(true), vanishing polynomials for "
                     "clenshaw-curtis-zero, trigonometric modes of the Fourier frequency set, affine functions for wavelets and parent-complete boundary-including local polynomials of order != 0), (b) match Richardson central "
                     "differences of evaluate() for generic data, the two step sizes having to agree first, and (c) satisfy differentiate_B(x) = differentiate_A(g(x)) g' between the twins. Exploration.",
                note=pc._TB + " Conformal maps are never used (the API documents no derivative under them). Local polynomial grids whose hierarchy is not parent-complete are exempt from oracle (a) only."),
    "C10": dict(technique="property-based testing (rapidcheck, structure-aware byte decoder): metamorphic pair canonical grid / transformed grid with identical values, "
                          "independent long-double re-implementation of the documented maps, Jacobians, quadrature factors and of the truncated-arcsin conformal map with a bisection inverse; ASan/UBSan",
                text="For generated specifications balanced over the canonical domains ([-1,1] rules of all families, Chebyshev/Gegenbauer/Jacobi weights, Gauss-Laguerre, Gauss-Hermite, Fourier) and generated transforms "
                     "(a<b from a palette or continuous; shift and positive rate for the unbounded rules; asin truncations 0..6; conformal + linear in both call orders) a canonical grid A and a transformed grid B receive the same values. "
                     "B's needed/loaded/all points must be the mapped points of A; evaluate_B(x) must equal evaluate_A(map^-1 x) at interior points, nodes (and the loaded values for interpolatory rules) and domain boundaries; "
                     "differentiate scales by dt/dx; getHierarchicalSupport scales by the Jacobian; quadrature weights, integrate() and integrateHierarchicalFunctions() scale by the documented factor "
                     "(((b-a)/2)^(alpha+beta+1), (b-a), b^-(1+alpha), b^-(1+alpha)/2; product of g'(t) for the conformal map); getDomainInside() accepts grid and interior points and rejects points beyond the bounds by relative margins 1e-9..10 "
                     "(Hermite accepts everything, Laguerre rejects x<a only). Exploration.",
                note=pc._TB + " Grid points that the forward map rounds one ulp beyond a bound are counted, not asserted, for getDomainInside (the statement allows rounding at the boundary itself)."),
}
