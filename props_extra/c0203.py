"""Configuration fragment for C02 (quadrature exactness) and C03 (interpolation exactness); merged by props_config.py."""
import props_config as pc

_ASSUME = ["sanitizers (ASan+UBSan) see every memory error on the executed paths",
           "the harness reference mathematics (exact moments of the documented weight functions in long double, inverse linear maps, "
           "Fourier index -> frequency convention of DESIGN Appendix A) is correct",
           "generalised Gauss-Hermite is read with the weight |x-a|^alpha exp(-b (x-a)^2) (the header prints (x-a)^alpha, which is not a weight for odd or fractional alpha)",
           "clenshaw-curtis-zero is asserted on vanishing polynomials only (DESIGN 2.9)"]

PROPS = {
    "C02": pc.grid_prop(50000, 2000000, assumptions=_ASSUME, floors={}),
    "C03": pc.grid_prop(30000, 1000000, assumptions=_ASSUME, floors={}),
}

META = {
    "C02": dict(technique="property-based testing (rapidcheck, structure-aware byte decoder) against closed-form moments of the documented weight functions computed in long double; ASan/UBSan",
                text="tbd", note=pc._TB),
    "C03": dict(technique="property-based testing (rapidcheck, structure-aware byte decoder): members of the declared space are loaded as outputs and must be reproduced at generated points; ASan/UBSan",
                text="tbd", note=pc._TB),
}
