"""Configuration fragment for C16 (tasgrid command-line tool vs. library API); merged by props_config.py."""
import props_config as pc

PROPS = {
    "C16": pc.grid_prop(1500, 60000, size=200, tasgrid_env=True, floors={}),
}
META = {}
