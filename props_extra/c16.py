"""Configuration fragment for C16 (tasgrid command-line tool vs. the library API); merged by props_config.py.

A case is a script of 2-8 invocations of the real tasgrid binary (about 15 ms each under ASan), so the case counts are
much smaller than for the in-process properties.  "tasgrid_env": the supervisor must export VERIF_TASGRID (path printed by
`build.py asan tasgrid`) to the driver; without it every case fails with an explicit message.
"""
import props_config as pc

_CMD = {  # command floors: fraction of scripts that contain at least one accepted invocation of the command
    "cmd:loadvalues": 0.3, "cmd:evaluate": 0.04, "cmd:integrate": 0.03, "cmd:differentiate": 0.02, "cmd:getcoefficients": 0.02, "cmd:setcoefficients": 0.04,
    "cmd:getpoints": 0.03, "cmd:getneeded": 0.03, "cmd:getquadrature": 0.03, "cmd:getinterweights": 0.03, "cmd:getdiffweights": 0.02, "cmd:gethsupport": 0.03,
    "cmd:evalhierarchyd": 0.03, "cmd:evalhierarchys": 0.015, "cmd:getpoly": 0.015, "cmd:getanisotropy": 0.015, "cmd:getpointsindexes": 0.02, "cmd:getneededindexes": 0.003,
    "cmd:refine": 0.02, "cmd:refineaniso": 0.02, "cmd:refinesurp": 0.02, "cmd:cancelrefine": 0.02, "cmd:mergerefine": 0.01, "cmd:makeupdate": 0.03, "cmd:setconformal": 0.02,
    "cmd:getconstructpnts": 0.05, "cmd:loadconstructed": 0.015, "cmd:makequadrature": 0.04, "cmd:summary": 0.02, "cmd:using-construct": 0.02,
    "cmd:makeglobal": 0.08, "cmd:makesequence": 0.08, "cmd:makelocalpoly": 0.08, "cmd:makewavelet": 0.08, "cmd:makefourier": 0.08,
}
_FLOORS = dict(_CMD, **{"fmt:ascii": 0.4, "fmt:binary": 0.4, "in:ascii-matrix": 0.3, "in:binary-matrix": 0.3, "name:short": 0.3, "nontrivial": 0.15,
                        "construct:with-data": 0.02, "load:refinement": 0.008, "load:reload": 0.03, "refine:scale": 0.002, "refine:limits": 0.01,
                        "make:custom": 0.008, "make:conformal": 0.04, "make:transform": 0.1, "make:limits": 0.1, "make:aniso": 0.08})

PROPS = {
    "C16": pc.grid_prop(1500, 60000, size=400, tasgrid_env=True, floors=_FLOORS,
                        quick=dict(cases=1500, size=400, wall=900, case_budget=60),
                        thorough=dict(cases=60000, size=500, wall=3000, case_budget=60),
                        assumptions=["sanitizers (ASan+UBSan) see every memory error on the executed paths of the tool and of the in-process mirror",
                                     "the mirror (DESIGN.md Appendix C) transcribes the documented meaning of every command correctly: Doxygen/InterfaceCLI.md, `tasgrid <command> help`, and the "
                                     "API documentation of the corresponding methods; the harness matrix readers/writers implement the documented matrix file format",
                                     "the mirror runs the same library build as the tool, so a library defect that affects both sides equally is invisible here (it belongs to C01-C14)"]),
}

META = {
    "C16": dict(technique="differential property-based testing (rapidcheck, structure-aware byte decoder) of the real tasgrid executable (ASan+UBSan build, one process per invocation) against an "
                          "in-process mirror that executes the documented API call sequence; independent readers/writers for both matrix file formats; observable-digest and byte comparison of grid files",
                text="Generated scripts of 2-8 tasgrid invocations share one grid file: a make command of any family (dimensions, outputs, depth, type, rule, order, alpha/beta, anisotropy, level-limit, transform, "
                     "conformal and custom-rule files) followed by a state-aware choice among loadvalues, setcoefficients, refine/refineaniso/refinesurp (types, minimum growth, output, tolerance, criteria, limits, "
                     "scale corrections), cancelrefine, mergerefine, makeupdate, setconformal, getconstructpnts, loadconstructed, makequadrature, a new make, and the read-only commands (getpoints, getneeded, "
                     "getquadrature, getinterweights, getdiffweights, evaluate, integrate, differentiate, getcoefficients, evalhierarchyd/s, gethsupport, getpoly, getanisotropy, point indexes, summary, "
                     "using-construct), with long and short option names, ASCII and binary grid files and ASCII and binary input and output matrices. After every invocation the tool must not crash, hang or report a "
                     "sanitizer error; must accept what the help text and the API accept; every matrix it writes (-outputfile in both formats, -print) must equal the mirror's array to 1e-13 relative; the grid file "
                     "it writes must read back to the mirror's observable digest, re-write to the mirror's bytes and be byte-identical to the file the mirror writes; read-only commands must leave the grid file "
                     "untouched. Exploration.",
                note=pc._TB + " The tool and the mirror share the library build; process start-up dominates the cost (about 15 ms per invocation), which bounds the number of scripts per run."),
}
