#!/usr/bin/env python3
"""replay.py <ID> <case file>: rebuilds and replays one saved case through the replay driver (bypasses rapidcheck/libFuzzer)."""
import os, subprocess, sys
VERIF = os.path.dirname(os.path.abspath(__file__)); sys.path.insert(0, VERIF)
import props_config
pid, path = sys.argv[1], sys.argv[2]
c = props_config.PROPS[pid]
b = subprocess.run([sys.executable, os.path.join(VERIF, "build.py"), c["flavour"], c["binary"]], stdout=subprocess.PIPE, text=True, check=True).stdout.strip().splitlines()[-1]
wd = os.path.join(VERIF, ".work", f"replay-{os.getpid()}"); os.makedirs(wd, exist_ok=True)
env = dict(os.environ, ASAN_OPTIONS="exitcode=99", UBSAN_OPTIONS="print_stacktrace=1:halt_on_error=1:exitcode=99")
r = subprocess.run([b, "--prop", pid, "--mode", "replay", "--replay", path, "--text", "--workdir", wd, "--no-exclude"], env=env)
import shutil; shutil.rmtree(wd, ignore_errors=True)
sys.exit(0 if r.returncode == 0 else 1)
