#!/usr/bin/env python3
"""Supervisor for one property check.

  run_check.py <ID> [--tier quick|thorough] [--cases N] [--shards N] [--size S]

Steps: build the flavour from $VERIF_REPO (default /repo) working tree; replay the committed regression
cases; run the witnesses of known findings; run N rapidcheck shards (one process per shard, seeds derived
from VERIF_SEED); minimise crashes by delta debugging with the replay driver; replay every candidate three
times before calling it a violation; write /verif/evidence/<ID>.json; print
  VIOLATION property=<ID> replay=<path>       (exit 1)
  KNOWN-FINDING: property=<ID> <what>         (exit 0)
"""
import argparse, hashlib, json, os, shutil, subprocess, sys, time, glob, signal

VERIF = os.path.dirname(os.path.abspath(__file__))
EVID = os.environ.get("VERIF_EVIDENCE_DIR", os.path.join(VERIF, "evidence"))   # mutant self-tests write elsewhere
sys.path.insert(0, VERIF)
import props_config  # per-property table

def sh(cmd, **kw):
    return subprocess.run(cmd, stdout=subprocess.PIPE, stderr=subprocess.STDOUT, text=True, errors="replace", **kw)

SAN_ENV = {
    "ASAN_OPTIONS": "exitcode=99:abort_on_error=0:detect_leaks=1:allocator_may_return_null=1:malloc_context_size=12",
    "UBSAN_OPTIONS": "print_stacktrace=1:halt_on_error=1:exitcode=99",
    "TSAN_OPTIONS": "exitcode=98:halt_on_error=1:second_deadlock_stack=1",
}

class Runner:
    def __init__(self, pid, tier, args):
        self.pid, self.tier, self.args = pid, tier, args
        self.cfg = props_config.PROPS[pid]
        self.seed = int(os.environ.get("VERIF_SEED", "1") or "1")
        self.work = os.path.join(VERIF, ".work", f"{pid}-{os.getpid()}")
        shutil.rmtree(self.work, ignore_errors=True); os.makedirs(self.work)
        self.env = dict(os.environ); self.env.update(SAN_ENV)
        self.violations = []   # (path, oracle/msg)
        self.known_lines = []
        self.notes = []
        self.t0 = time.time()

    # ---- build
    def build(self):
        flav = self.cfg["flavour"]; binname = self.cfg["binary"]
        r = subprocess.run([sys.executable, os.path.join(VERIF, "build.py"), flav, binname], stdout=subprocess.PIPE, text=True)
        if r.returncode != 0:
            print(f"BUILD-FAILED flavour={flav} (the repository working tree does not compile)"); sys.exit(2)
        self.bin = r.stdout.strip().splitlines()[-1]
        # helper binaries of other flavours (e.g. the serial / OpenMP runners of C13), exported to the driver through the environment
        for var, (fl, name) in self.cfg.get("runner_env", {}).items():
            rr = subprocess.run([sys.executable, os.path.join(VERIF, "build.py"), fl, name], stdout=subprocess.PIPE, text=True)
            if rr.returncode != 0: print(f"BUILD-FAILED flavour={fl}"); sys.exit(2)
            self.env[var] = rr.stdout.strip().splitlines()[-1]

    # ---- coverage-guided phase (thorough tier of the in-process properties): libFuzzer over the same decoder and check functions
    def fuzz_phase(self):
        fz = self.cfg.get("fuzz")
        if not fz or self.tier != "thorough": return []
        r = subprocess.run([sys.executable, os.path.join(VERIF, "build.py"), "fuzz", "vfuzz"], stdout=subprocess.PIPE, text=True)
        if r.returncode != 0: print("BUILD-FAILED flavour=fuzz"); sys.exit(2)
        fbin = r.stdout.strip().splitlines()[-1]
        workers = fz.get("workers", 8); secs = int(os.environ.get("VERIF_FUZZ_SECONDS", fz.get("seconds", 240))); budget = self.cfg[self.tier].get("case_budget", 10)
        wit = {e.get("witness") for e in self.known()}
        seeds = [f for f in sorted(glob.glob(os.path.join(VERIF, "replays", self.pid, "*.case"))) if os.path.relpath(f, VERIF) not in wit]
        kn = [e["id"] for e in self.known() if e["status"] == "known"]
        t_end = time.time() + secs
        def launch(i, attempt):
            wd = os.path.join(self.work, f"f{i}")
            if attempt == 0:
                os.makedirs(f"{wd}/corpus"); os.makedirs(f"{wd}/art")
                if i % 2 == 0:   # half of the workers start from the committed replays, half from an empty corpus
                    for f in seeds: shutil.copy(f, f"{wd}/corpus/")
            env = dict(self.env); env.update({"VF_PROP": self.pid, "VF_OUT": f"{wd}/stats{attempt}.json", "VF_FAILOUT": f"{wd}/fail.case", "VF_TIER": "1", "VF_WORKDIR": wd, "VF_KNOWN": ",".join(kn)})
            env["ASAN_OPTIONS"] = "detect_leaks=1:allocator_may_return_null=1:malloc_context_size=12"; env["UBSAN_OPTIONS"] = "print_stacktrace=1:halt_on_error=1"
            left = max(5, int(t_end - time.time()))
            a = [fbin, f"{wd}/corpus", f"-max_total_time={left}", f"-max_len={fz.get('max_len', 600)}", f"-seed={self.seed * 1000 + i + 1 + 100 * attempt}", f"-timeout={budget}", "-rss_limit_mb=6000",
                 f"-artifact_prefix={wd}/art/", "-print_final_stats=1", "-verbosity=0"]
            return [i, wd, subprocess.Popen(a, env=env, stdout=open(f"{wd}/log{attempt}", "w"), stderr=subprocess.STDOUT, preexec_fn=os.setsid), attempt]
        procs = [launch(i, 0) for i in range(workers)]
        stats = []; qi = 0; n_load = 0
        while qi < len(procs):
            i, wd, p, attempt = procs[qi]; qi += 1
            try: rc = p.wait(timeout=max(1, t_end - time.time()) + 3 * budget + 120)
            except subprocess.TimeoutExpired: os.killpg(p.pid, signal.SIGKILL); p.wait(); rc = None; self.notes.append(f"fuzz worker {i} stopped by the supervisor (no exit after its time budget)")
            if os.path.exists(f"{wd}/stats{attempt}.json"):
                try: stats.append(json.load(open(f"{wd}/stats{attempt}.json")))
                except Exception as ex: self.notes.append(f"fuzz worker {i}: unreadable stats ({ex})")
            if rc in (0, None): continue
            cands = [f"{wd}/fail.case"] if os.path.exists(f"{wd}/fail.case") else sorted(glob.glob(f"{wd}/art/crash-*") + glob.glob(f"{wd}/art/leak-*"))
            slow = glob.glob(f"{wd}/art/timeout-*")
            if not cands and slow and self.cfg.get("hang_is_violation"): cands = slow[:1]
            if not cands:
                # slow unit / timeout / out-of-memory artifacts are load noise: drop them and let the worker continue on its corpus for the remaining time
                n_load += 1
                for x in glob.glob(f"{wd}/art/*"): os.unlink(x)
                if t_end - time.time() > 20 and attempt < 20: procs.append(launch(i, attempt + 1))
                continue
            data = open(cands[0], "rb").read(); tmp = f"{wd}/cand.case"; open(tmp, "wb").write(data)
            k, s_, out = self.replay(tmp, budget=budget)
            if k == "pass":
                self.notes.append(f"fuzz worker {i}: artifact passes under the replay driver (tail: {open(f'{wd}/log{attempt}', errors='replace').read()[-300:]!r})")
                for x in glob.glob(f"{wd}/art/*") + glob.glob(f"{wd}/fail.case"): os.unlink(x)
                continue
            self.n_min = getattr(self, "n_min", 0) + 1
            small = self.minimise(data, k, 300) if (self.n_min <= 2 and len(self.violations) < 3) else data
            self.confirm_and_record(small, k, s_, f"libfuzzer{i}:{k}")
        if n_load: self.notes.append(f"libFuzzer workers were restarted {n_load} times after timeout/slow-unit/oom artifacts (load noise, inconclusive for those inputs)")
        self.fuzz_execs = sum(s_["evaluations"] for s_ in stats)
        return stats

    def known(self):
        path = os.environ.get("VERIF_KNOWN_FINDINGS", os.path.join(VERIF, "known_findings.json"))   # (override: developer aid for trying repairs in a scratch tree)
        ents = json.load(open(path))["findings"] if os.path.exists(path) else []
        return [e for e in ents if e["property"] == self.pid]

    def drive_args(self, extra, without=None, quick_decode=False):
        # committed replay files (regressions, witnesses) were recorded with the quick-tier decoder and are always replayed with it
        a = [self.bin, "--prop", self.pid, "--tier", "1" if (self.tier == "thorough" and not quick_decode) else "0"]
        kn = [e["id"] for e in self.known() if e["status"] == "known" and e["id"] != without]   # exclusions are per property: each affected property lists its own entry and witness
        if kn: a += ["--known", ",".join(kn)]
        return a + extra

    def replay(self, path, no_exclude=False, text=False, budget=None, without=None):
        wd = os.path.join(self.work, "replay"); os.makedirs(wd, exist_ok=True)
        committed = os.path.abspath(path).startswith(os.path.join(VERIF, "replays") + os.sep)
        a = self.drive_args(["--mode", "replay", "--replay", path, "--workdir", wd], without=without, quick_decode=committed)
        if no_exclude: a.append("--no-exclude")
        if text: a.append("--text")
        if budget: a += ["--budget", str(budget)]
        r = self.run_watched(a, (budget or 60) + 30)
        if r is None: return "hang", "", "timeout"
        out = r.stdout
        if r.returncode == 0: return "pass", "", out
        if r.returncode == 97: return "hang", "watchdog", out
        if r.returncode == 1 and "FAIL oracle=" in out:
            line = [l for l in out.splitlines() if l.startswith("FAIL oracle=")][-1]
            return "fail", line[len("FAIL oracle="):].split(" ")[0], out
        if r.returncode == 2: return "error", "", out
        return "crash", self.crash_sig(out), out

    TSAN_MARK = "WARNING: ThreadSanitizer"
    def run_watched(self, a, timeout):
        """Runs a command capturing its output. ThreadSanitizer (clang 14) can dead-lock inside its own runtime after printing a race report when the
        racing threads keep allocating, instead of exiting (halt_on_error): the report itself is the verdict, so the process is stopped shortly after it appears."""
        class R: pass
        logp = os.path.join(self.work, f"watched-{time.time_ns()}.log")
        with open(logp, "w") as lf:
            p = subprocess.Popen(a, env=self.env, stdout=lf, stderr=subprocess.STDOUT, preexec_fn=os.setsid)
            t_end = time.time() + timeout; seen_at = None; rc = None
            while True:
                try: rc = p.wait(timeout=0.25); break
                except subprocess.TimeoutExpired: pass
                if self.cfg["flavour"] == "tsan":
                    txt = open(logp, errors="replace").read()
                    if self.TSAN_MARK in txt:
                        if seen_at is None: seen_at = time.time()
                        elif time.time() - seen_at > 3.0: os.killpg(p.pid, signal.SIGKILL); p.wait(); rc = 98; break
                if time.time() > t_end: os.killpg(p.pid, signal.SIGKILL); p.wait(); return None
        r = R(); r.stdout = open(logp, errors="replace").read(); r.returncode = rc
        if self.cfg["flavour"] == "tsan" and self.TSAN_MARK in r.stdout and rc in (0, 1, 97): r.returncode = 98
        os.unlink(logp)
        return r

    @staticmethod
    def crash_sig(out):
        for l in out.splitlines():
            if "ERROR: AddressSanitizer" in l or "runtime error:" in l or "WARNING: ThreadSanitizer" in l or "ERROR: LeakSanitizer" in l:
                return l.strip()[:200]
        return "abnormal termination"

    # ---- delta debugging on bytes, test = same kind of failure under replay
    def minimise(self, data, kind, budget_s):
        t_end = time.time() + budget_s
        tmp = os.path.join(self.work, "ddmin.case")
        def fails(b):
            open(tmp, "wb").write(bytes(b))
            k, _, _ = self.replay(tmp, budget=20 if kind != "hang" else 4)
            return k == kind
        data = list(data)
        if not fails(data): return bytes(data)
        n = 2
        while len(data) >= 2 and time.time() < t_end:
            chunk = max(1, len(data) // n); reduced = False
            for i in range(0, len(data), chunk):
                cand = data[:i] + data[i + chunk:]
                if cand and fails(cand):
                    data = cand; n = max(n - 1, 2); reduced = True; break
                if time.time() > t_end: break
            if not reduced:
                if chunk == 1: break
                n = min(len(data), n * 2)
        # truncate tail, then lower byte values
        while len(data) > 1 and time.time() < t_end and fails(data[:-1]): data = data[:-1]
        for i in range(len(data)):
            if time.time() > t_end: break
            for v in (0, 1, data[i] // 2):
                if v < data[i]:
                    cand = data[:i] + [v] + data[i + 1:]
                    if fails(cand): data = cand; break
        return bytes(data)

    def confirm_and_record(self, data, kind, sig, origin, detail=""):
        """three replays; all must fail the same way"""
        if len(self.violations) >= 3:   # enough witnesses: do not spend the budget confirming more of (most likely) the same defect
            self.notes.append(f"further failing candidate from {origin} ({kind}) not examined: three violations already confirmed"); return
        h = hashlib.sha1(data).hexdigest()[:12]
        d = os.path.join(EVID, "replays"); os.makedirs(d, exist_ok=True)
        path = os.path.join(d, f"{self.pid}-{h}.case"); open(path, "wb").write(data)
        cb = self.cfg[self.tier].get("case_budget", 10)
        hb = 30 if kind != "hang" else min(600, max(30, 3 * cb))   # a hang is confirmed with three times the per-case budget (a loaded machine must not turn a slow case into a hang)
        res = [self.replay(path, budget=hb) for _ in range(3)]
        if self.cfg.get("schedule_dependent") and not all(r[0] == kind for r in res):
            # properties about schedules: an outcome that differs between runs of the same input IS the violation; replay up to 12 more times and
            # report if the failure shows again at least once (the first observation alone could be a disturbed run)
            extra = []
            for _ in range(12):
                extra.append(self.replay(path, budget=30))
                if extra[-1][0] == kind: break
            if any(r[0] == kind for r in res + extra):
                k, s, out = [r for r in res + extra if r[0] == kind][0]
                open(path + ".txt", "w").write(out)
                self.violations.append((path, f"{kind} {s} origin={origin} (intermittent: failed again in {sum(r[0] == kind for r in res + extra)} of {len(res + extra)} replays)")); return
        if not all(r[0] == kind for r in res):
            self.notes.append(f"FLAKY candidate {path} origin={origin} results={[r[0] for r in res]} in-run failure: {detail[:400]}"); return
        if kind == "hang" and not self.cfg.get("hang_is_violation"):
            self.notes.append(f"INCONCLUSIVE (time budget) {path} origin={origin}"); return
        k, s, out = self.replay(path, text=True, budget=30)
        open(path + ".txt", "w").write(out)
        self.violations.append((path, f"{kind} {res[0][1]} origin={origin}"))

    # ---- phases
    def regression(self):
        d = os.path.join(VERIF, "replays", self.pid)
        witnesses = {e.get("witness") for e in self.known() if e["status"] == "known"}
        n = 0
        for f in sorted(glob.glob(os.path.join(d, "*.case"))):
            rel = os.path.relpath(f, VERIF)
            if rel in witnesses: continue
            n += 1
            k, s, out = self.replay(f)
            if k in ("fail", "crash") or (k == "hang" and self.cfg.get("hang_is_violation")):
                self.confirm_and_record(open(f, "rb").read(), k, s, f"regression:{rel}")
        return n

    def witnesses(self):
        for e in self.known():
            if e["status"] != "known": continue
            w = os.path.join(VERIF, e["witness"])
            # the witness runs with every OTHER known finding of the property still excluded, only its own class is re-enabled
            k, s, out = self.replay(w, without=e["id"], budget=e.get("budget", 20))
            exp = e.get("expect", {})
            if k == "pass":
                self.notes.append(f"known finding {e['id']} no longer reproduces on this tree"); continue
            ok = (k == exp.get("kind", k)) and (exp.get("oracle", "") in (s or "") or exp.get("oracle", "") in out)
            if ok:
                line = f"KNOWN-FINDING: property={self.pid} {e['id']}: {e['what']}"
                print(line); self.known_lines.append(line)
            else:
                self.notes.append(f"witness of known finding {e['id']} fails differently than recorded ({k} {s}): re-examine {e['witness']}")
                self.violations.append((w, f"{k} {s} origin=witness-mismatch:{e['id']}"))

    def generate(self):
        t = self.cfg[self.tier]
        shards = self.args.shards or t.get("shards", 14)
        cases = self.args.cases or t["cases"]
        size = self.args.size or t.get("size", 200)
        per = max(1, cases // shards)
        budget = t.get("wall", 600)
        procs = []
        def launch(i, attempt, count):
            wd = os.path.join(self.work, f"s{i}" + (f"r{attempt}" if attempt else "")); os.makedirs(wd)
            env = dict(self.env); env["RC_PARAMS"] = f"seed={self.seed * 100003 + i * 7919 + attempt * 104729 + 1} max_success={count} max_size={size} max_discard_ratio=50"
            a = self.drive_args(["--mode", "rc", "--out", f"{wd}/stats.json", "--journal", f"{wd}/cur.case", "--failout", f"{wd}/fail.case", "--workdir", wd,
                                 "--budget", str(t.get("case_budget", 10))])
            log = open(f"{wd}/log", "w")
            return [i, wd, subprocess.Popen(a, env=env, stdout=log, stderr=subprocess.STDOUT, preexec_fn=os.setsid), attempt, count]
        for i in range(shards): procs.append(launch(i, 0, per))
        deadline = time.time() + budget
        stats = []
        qi = 0
        while qi < len(procs):
            i, wd, p, attempt, count = procs[qi]; qi += 1
            rc = "pending"
            while rc == "pending":
                try: rc = p.wait(timeout=1.0 if self.cfg["flavour"] == "tsan" else max(1, deadline - time.time()))
                except subprocess.TimeoutExpired:
                    if self.cfg["flavour"] == "tsan" and self.TSAN_MARK in open(f"{wd}/log", errors="replace").read():
                        time.sleep(3.0)
                        if p.poll() is None: os.killpg(p.pid, signal.SIGKILL)
                        p.wait(); rc = 98; break
                    if time.time() > deadline:
                        os.killpg(p.pid, signal.SIGKILL); p.wait(); rc = None
                        if os.path.exists(f"{wd}/fail.case"): rc = 1   # stopped while shrinking a failure: the (unminimised) failing case was saved
                        else: self.notes.append(f"shard {i} stopped at the wall budget ({budget}s): inconclusive for the remaining cases")
            sp = f"{wd}/stats.json"
            if os.path.exists(sp):
                try: stats.append(json.load(open(sp)))
                except Exception as ex: self.notes.append(f"shard {i}: unreadable stats ({ex})")
            if rc in (0, None): continue
            if rc == 97 and not self.cfg.get("hang_is_violation"):
                # a case exceeded its time budget: inconclusive, keep the case and continue the shard with the remaining quota
                done = 0
                try: done = json.load(open(sp))["evaluations"]
                except Exception: pass
                keep = os.path.join(EVID, "replays"); os.makedirs(keep, exist_ok=True)
                data = open(f"{wd}/cur.case", "rb").read() if os.path.exists(f"{wd}/cur.case") else b""
                kp = os.path.join(keep, f"{self.pid}-slow-{hashlib.sha1(data).hexdigest()[:10]}.case"); open(kp, "wb").write(data)
                self.notes.append(f"INCONCLUSIVE: shard {i} case exceeded its time budget ({kp}); not a violation")
                if attempt < 6 and count - done > 10 and time.time() < deadline - 5: procs.append(launch(i, attempt + 1, count - done))
                continue
            if rc == 1 and os.path.exists(f"{wd}/fail.case"):
                data = open(f"{wd}/fail.case", "rb").read()
                fl = [l for l in open(f"{wd}/log", errors="replace").read().splitlines() if l.startswith("FAIL oracle=")]
                self.confirm_and_record(data, "fail", "", f"shard{i}", detail=fl[-1] if fl else "")
            else:
                cur = f"{wd}/cur.case"
                if not os.path.exists(cur): self.notes.append(f"shard {i} exited {rc} without a journal"); continue
                data = open(cur, "rb").read()
                tmp = f"{wd}/cand.case"; open(tmp, "wb").write(data)
                k, s, out = self.replay(tmp, budget=t.get("case_budget", 10))
                if k == "pass":
                    self.notes.append(f"shard {i} exited {rc} but the journaled case passes in isolation (tail: {open(f'{wd}/log').read()[-300:]!r})"); continue
                self.n_min = getattr(self, "n_min", 0) + 1
                small = self.minimise(data, k, (40 if k == "hang" else 60) if self.tier == "quick" else 300) if (self.n_min <= 2 and len(self.violations) < 3) else data
                self.confirm_and_record(small, k, s, f"shard{i}:{k}")
        return stats

    def evidence(self, stats, n_reg):
        ev = sum(s["evaluations"] for s in stats)
        hashes = set(); labels = {}; counters = {}; excluded = {}; samples = []; disc = 0; mr = 0.0
        for s in stats:
            hashes.update(s["hashes"]); disc += s["discarded"]; mr = max(mr, s.get("max_ratio", 0))
            for k, v in s["labels"].items(): labels[k] = labels.get(k, 0) + v
            for k, v in s["counters"].items(): counters[k] = counters.get(k, 0) + v
            for k, v in s["excluded"].items(): excluded[k] = excluded.get(k, 0) + v
            samples += s["samples"][-2:]
        starved = []   # distribution floors are stated for the random generator (rapidcheck shards); the coverage-guided corpus has its own distribution
        rcs = [s for s in stats if s.get("engine") != "libfuzzer"]; rc_ev = sum(s["evaluations"] for s in rcs); rc_lab = {}
        for s in rcs:
            for k, v in s["labels"].items(): rc_lab[k] = rc_lab.get(k, 0) + v
        for lab, floor in self.cfg.get("floors", {}).items():
            if rc_ev and rc_lab.get(lab, 0) / rc_ev < floor: starved.append(f"{lab}: {rc_lab.get(lab, 0)}/{rc_ev} < {floor}")
        rule = stats[0]["rule"] if stats else self.cfg.get("rule", "")
        doc = {
            "property_id": self.pid, "tier": self.tier, "seed": self.seed, "level": self.cfg.get("level", "exploration"),
            "coverage": {
                "evaluations": ev + n_reg, "distinct_nontrivial": len(hashes), "rule": rule, "samples": (samples[::max(1, len(samples) // 8)][:8]) or ["(no sample)"],
                "generated": ev, "regression_replays": n_reg, "discarded": disc, "class_histogram": dict(sorted(labels.items())),
                "oracle_evaluations": dict(sorted(counters.items())), "excluded_known_finding_classes": excluded,
                "max_error_over_tolerance": mr, "generator_starved": starved, "notes": self.notes,
                "known_findings_reported": self.known_lines,
                "engines": {"rapidcheck_cases": ev - getattr(self, "fuzz_execs", 0), "libfuzzer_executions": getattr(self, "fuzz_execs", 0)},
            },
            "assumptions": self.cfg.get("assumptions", []),
            "wall_s": round(time.time() - self.t0, 1), "violations": len(self.violations),
        }
        os.makedirs(EVID, exist_ok=True)
        tmp = os.path.join(EVID, f".{self.pid}.json.tmp")
        json.dump(doc, open(tmp, "w"), indent=1); os.replace(tmp, os.path.join(EVID, f"{self.pid}.json"))
        return doc

    def run(self):
        self.build()
        n_reg = self.regression()
        self.witnesses()
        custom = self.cfg.get("custom")
        stats = custom(self) if custom else self.generate()
        stats += self.fuzz_phase()
        doc = self.evidence(stats, n_reg)
        c = doc["coverage"]
        print(f"[{self.pid} {self.tier}] cases={c['evaluations']} distinct_nontrivial={c['distinct_nontrivial']} discarded={c['discarded']} "
              f"max_err/tol={c['max_error_over_tolerance']:.3g} wall={doc['wall_s']}s")
        for s in c["generator_starved"]: print("  generator-starved:", s)
        for n in self.notes: print("  note:", n)
        shutil.rmtree(self.work, ignore_errors=True)
        seen = set()
        for path, what in self.violations:
            if path in seen: continue
            seen.add(path); print(f"VIOLATION property={self.pid} replay={path}   ({what})")
        sys.exit(1 if self.violations else 0)

def main():
    ap = argparse.ArgumentParser()
    ap.add_argument("pid"); ap.add_argument("--tier", default=os.environ.get("VERIF_TIER", "quick"))
    ap.add_argument("--cases", type=int); ap.add_argument("--shards", type=int); ap.add_argument("--size", type=int)
    a = ap.parse_args()
    if a.tier not in ("quick", "thorough"): a.tier = "quick"
    Runner(a.pid, a.tier, a).run()

if __name__ == "__main__":
    main()
